package sut

import (
	"crypto/sha512"
	"encoding/base64"
	"encoding/hex"
	"fmt"
	"math"
	"net/url"
	"regexp"
	"sort"
	"strconv"
	"strings"
	"time"

	"github.com/pquerna/otp/totp"
	"github.com/volatiletech/authboss/v3"
	"github.com/volatiletech/authboss/v3/otp/twofactor/sms2fa"
	"github.com/volatiletech/authboss/v3/otp/twofactor/totp2fa"
	"golang.org/x/crypto/bcrypt"
)

// ---- the abstract vocabulary shared with spec/Authboss.tla -------------------

// PidPool maps abstract account names to concrete PIDs. u3 is deliberately
// hostile (separator characters used inside remember tokens and OAuth2 PIDs).
var PidPool = map[string]string{
	"u1": "u1@x.io",
	"u2": "u2@x.io",
	// separators the token / pid codecs use, upper case, and longer than any "reasonable" size bound (213 bytes)
	"u3": "We;rd,3;;" + strings.Repeat("x", 198) + "@x.io",
	"g1": "g1@x.io",
	"u2s": "u2-secondary@x.io", // a declared secondary address of u2, not an account
	// OAuth2 accounts: provider pa/pb, uid x / y
	"o_pa_x": authboss.MakeOAuth2PID("pa", "x1"),
	"o_pa_y": authboss.MakeOAuth2PID("pa", "y 2"),
	"o_pb_x": authboss.MakeOAuth2PID("pb", "x1"),
	"o_pb_y": authboss.MakeOAuth2PID("pb", "y 2"),
}

// AllPids is the fixed abstract account pool (spec constant Pids).
var AllPids = []string{"u1", "u2", "u3", "g1", "o_pa_x", "o_pa_y", "o_pb_x", "o_pb_y"}

var OUidPool = map[string]string{"x": "x1", "y": "y 2"}

func AbsPid(concrete string) string {
	for a, c := range PidPool {
		if c == concrete {
			return a
		}
	}
	if concrete == "" {
		return "none"
	}
	return "?" + concrete
}

// PwPool are policy-conformant passwords; index+1 is the abstract id.
// The fifth one is shaped like a bcrypt digest (a password manager may well
// produce such a string); it must be hashed like any other password.
var PwPool = []string{"Aa1!aaaa", "Bb2@bbbbb", "Cc3#cccccc", "Aa1!aaab",
	"$2a$04$N9qo8uLOickgx2ZMRZoMyeIjZAgcfl7p92ldGxad68LJZdL17lhWy"}

var PhonePool = []string{"+15550001", "+15550002"}

type UserObs struct {
	Ex       bool     `json:"ex"`
	Pw       int      `json:"pw"`
	Conf     bool     `json:"conf"`
	CTok     int      `json:"cTok"`
	RTok     int      `json:"rTok"`
	RLeft    int      `json:"rLeft"`
	Att      int      `json:"att"`
	WinLeft  int      `json:"winLeft"`
	LockLeft int      `json:"lockLeft"`
	Otps     []int    `json:"otps"`
	Rcg      int      `json:"rcg"`
	RcLeft   []int    `json:"rcLeft"`
	Totp     int      `json:"totp"`
	TotpLast int      `json:"totpLast"`
	Sms      int      `json:"sms"`
	Arb      []string `json:"arb"`
	Email    string   `json:"email"`
}

type SessObs struct {
	Uid       string   `json:"uid"`
	Half      bool     `json:"half"`
	Twofa     string   `json:"twofa"`
	TotpPend  string   `json:"totpPend"`
	SmsPend   string   `json:"smsPend"`
	SmsCode   int      `json:"smsCode"`
	SmsFresh  int      `json:"smsFresh"`
	TotpSetup int      `json:"totpSetup"`
	SmsNum    int      `json:"smsNum"`
	OState    int      `json:"oState"`
	OHas      bool     `json:"oHas"`
	ORm       bool     `json:"oRm"`
	ORedir    string   `json:"oRedir"`
	TfaTok    int      `json:"tfaTok"`
	TfaAuthed bool     `json:"tfaAuthed"`
	ExpLeft   int      `json:"expLeft"`
	App1      bool     `json:"app1"`
	App2      bool     `json:"app2"`
	Unknown   []string `json:"unknown"`
}

type RmObs struct {
	O  string `json:"o"`
	Id int    `json:"id"`
}

type Obs struct {
	Now    int                `json:"now"`
	Db     map[string]UserObs `json:"db"`
	Rm     []RmObs            `json:"rm"`
	Sess   map[string]SessObs `json:"sess"`
	Cookie map[string]int     `json:"cookie"`
}

// World = instance + ground-truth registries + abstract clock.
type World struct {
	In       *Instance
	Now      int
	Pids     []string // abstract pids of this world
	Browsers []string

	ct, rt, tt []string // mailed tokens in order of arrival
	otp        []string
	rc         [][]string        // recovery-code generations
	sc         []string          // sms codes
	os         []string          // oauth2 states
	ts         []string          // totp secrets
	rmHash     []string          // remember-token hashes in order of AddRememberToken
	rmCookie   map[string]string // hash -> cookie value (when seen)

	T0      time.Time // reference instant for TOTP codes of this world
	needPre bool      // the next request must be preceded by a fresh projection
	smsTick map[string]int    // browser -> abstract tick at which sms_last was written
	smsSeen map[string]string // browser -> sms_last value as last written by the harness/library
	junkN   int
	pwCache map[string]int
	rcCache map[string][2]int // bcrypt hash -> (gen, idx)
	Secrets []Secret          // every plaintext secret known to the harness (C17)
}

type Secret struct {
	Kind  string
	Owner string
	Val   string
}

func NewWorld(cfg Config, pids, browsers []string) (*World, error) {
	in, err := New(cfg)
	if err != nil {
		return nil, err
	}
	w := &World{In: in, Pids: pids, Browsers: browsers, rmCookie: map[string]string{}, T0: time.Now(),
		pwCache: map[string]int{}, rcCache: map[string][2]int{}, smsTick: map[string]int{}, smsSeen: map[string]string{}}
	in.Store.onAddRm = func(hash string) { w.rmHash = append(w.rmHash, hash) }
	return w, nil
}

// Seed creates an account directly in storage (MinCost hashes).
type SeedUser struct {
	Pid  string `json:"pid"`
	Pw   int    `json:"pw"`
	Conf bool   `json:"conf"`
	Totp bool   `json:"totp"`
	Sms  int    `json:"sms"`
	Otps int    `json:"otps"`
	Rc   bool   `json:"rc"`
}

func idxOf(list []string, v string) int {
	for i, x := range list {
		if x == v {
			return i + 1
		}
	}
	return -1
}

// Hash512 is the storage form of a one-time password.
func Hash512(s string) string { return hash512(s) }

// TotpNow returns a currently valid code of TOTP secret id.
func (w *World) TotpNow(id int) string {
	c, _ := totp.GenerateCode(w.ts[id-1], time.Now())
	return c
}

func hash512(s string) string {
	sum := sha512.Sum512([]byte(s))
	return base64.StdEncoding.EncodeToString(sum[:])
}

// tokenHashes returns the selector/verifier storage forms of a mailed token.
func tokenHashes(tok string) (sel, ver string, ok bool) {
	raw, err := base64.URLEncoding.DecodeString(tok)
	if err != nil || len(raw) != 64 {
		return "", "", false
	}
	return hash512(string(raw[:32])), hash512(string(raw[32:])), true
}

func (w *World) tokId(list []string, sel, ver string) int {
	if sel == "" && ver == "" {
		return 0
	}
	for i, t := range list {
		s, v, ok := tokenHashes(t)
		if ok && s == sel && v == ver {
			return i + 1
		}
	}
	return -1
}

func (w *World) pwId(hash string) int {
	if hash == "" {
		return 0
	}
	if id, ok := w.pwCache[hash]; ok {
		return id
	}
	id := -1
	for i, p := range PwPool {
		if bcrypt.CompareHashAndPassword([]byte(hash), []byte(p)) == nil {
			id = i + 1
			break
		}
	}
	w.pwCache[hash] = id
	return id
}

func clipLeft(x int) int {
	if x < -1 {
		return -1
	}
	return x
}

func (w *World) userObs(u *User, now time.Time) UserObs {
	c := w.In.Cfg
	o := UserObs{Ex: true, Conf: u.Confirmed, Att: u.AttemptCount, Email: AbsPid(u.Email)}
	o.Pw = w.pwId(u.Password)
	o.CTok = w.tokId(w.ct, u.ConfirmSelector, u.ConfirmVerifier)
	o.RTok = w.tokId(w.rt, u.RecoverSelector, u.RecoverVerifier)
	o.RLeft = -1
	if o.RTok != 0 && !u.RecoverExpiry.IsZero() {
		rem := u.RecoverExpiry.Sub(now)
		if rem >= 0 {
			o.RLeft = int(math.Floor(float64(rem) / float64(Unit/G)))
		}
	}
	o.WinLeft = -1
	if !u.LastAttempt.IsZero() {
		g := int(math.Round(float64(now.Sub(u.LastAttempt)) / float64(Unit/G)))
		o.WinLeft = clipLeft(Thr(c.LockWindow) - g)
	}
	o.LockLeft = -1
	if !u.Locked.IsZero() {
		rem := u.Locked.Sub(now)
		if rem > 0 {
			o.LockLeft = int(math.Floor(float64(rem) / float64(Unit/G)))
		}
	}
	o.Otps = []int{}
	if u.OTPs != "" {
		for _, h := range strings.Split(u.OTPs, ",") {
			id := -1
			for i, p := range w.otp {
				if hash512(p) == h {
					id = i + 1
				}
			}
			o.Otps = append(o.Otps, id)
		}
		sort.Ints(o.Otps)
	}
	o.RcLeft = []int{}
	if u.RecoveryCodes != "" {
		for _, h := range strings.Split(u.RecoveryCodes, ",") {
			gi, ok := w.rcCache[h]
			if !ok {
				gi = [2]int{-1, -1}
				// newest generation first; position-aligned guess first
			search:
				for g := len(w.rc) - 1; g >= 0; g-- {
					for i, code := range w.rc[g] {
						if bcrypt.CompareHashAndPassword([]byte(h), []byte(code)) == nil {
							gi = [2]int{g + 1, i + 1}
							break search
						}
					}
				}
				w.rcCache[h] = gi
			}
			if o.Rcg == 0 || gi[0] > o.Rcg {
				o.Rcg = gi[0]
			}
			o.RcLeft = append(o.RcLeft, gi[1])
		}
		sort.Ints(o.RcLeft)
	}
	o.Totp = 0
	if u.TOTPSecretKey != "" {
		o.Totp = idxOf(w.ts, u.TOTPSecretKey)
	}
	if u.TOTPLastCode != "" {
		o.TotpLast = -1
		for i := range w.ts {
			for _, which := range []int{1, 3} {
				if w.totpCodeAt(i+1, which) == u.TOTPLastCode {
					o.TotpLast = (i+1)*10 + which
				}
			}
		}
	}
	o.Sms = 0
	if u.SMSPhone != "" {
		o.Sms = idxOf(PhonePool, u.SMSPhone)
	}
	o.Arb = []string{}
	for k := range u.Arbitrary {
		o.Arb = append(o.Arb, k)
	}
	sort.Strings(o.Arb)
	return o
}

var knownKeys = map[string]bool{}

func init() {
	for _, k := range AllSessionKeys {
		knownKeys[k] = true
	}
}

func (w *World) sessObs(m map[string]string, now time.Time) SessObs {
	c := w.In.Cfg
	s := SessObs{Uid: "none", Twofa: "none", TotpPend: "none", SmsPend: "none", ORedir: "none",
		SmsFresh: -2, ExpLeft: -2, Unknown: []string{}}
	if v, ok := m[authboss.SessionKey]; ok {
		s.Uid = AbsPid(v)
	}
	_, s.Half = m[authboss.SessionHalfAuthKey]
	if v, ok := m[authboss.Session2FA]; ok {
		s.Twofa = v
	}
	if v, ok := m[totp2fa.SessionTOTPPendingPID]; ok {
		s.TotpPend = AbsPid(v)
	}
	if v, ok := m[sms2fa.SessionSMSPendingPID]; ok {
		s.SmsPend = AbsPid(v)
	}
	if v, ok := m[sms2fa.SessionSMSSecret]; ok {
		s.SmsCode = idxOf(w.sc, v)
	}
	if v, ok := m[sms2fa.SessionSMSLast]; ok {
		s.SmsFresh = 0
		if n, err := strconv.ParseInt(v, 10, 64); err == nil && now.Unix()-n < 10 {
			s.SmsFresh = 1
		}
	}
	if v, ok := m[totp2fa.SessionTOTPSecret]; ok {
		s.TotpSetup = idxOf(w.ts, v)
	}
	if v, ok := m[sms2fa.SessionSMSNumber]; ok {
		s.SmsNum = idxOf(PhonePool, v)
	}
	if v, ok := m[authboss.SessionOAuth2State]; ok {
		s.OState = idxOf(w.os, v)
	}
	if v, ok := m[authboss.SessionOAuth2Params]; ok {
		s.OHas = true
		s.ORm = strings.Contains(v, `"rm":"true"`)
		if strings.Contains(v, `"redir":`) {
			s.ORedir = "redir"
		}
	}
	if v, ok := m[authboss.Session2FAAuthToken]; ok {
		s.TfaTok = idxOf(w.tt, v)
	}
	if v, ok := m[authboss.Session2FAAuthed]; ok && v == "true" {
		s.TfaAuthed = true
	}
	if v, ok := m[authboss.SessionLastAction]; ok {
		s.ExpLeft = -1
		if t, err := time.Parse(time.RFC3339, v); err == nil {
			g := int(math.Round(float64(now.Sub(t)) / float64(Unit/G)))
			s.ExpLeft = clipLeft(Thr(c.ExpireAfter) - g)
		}
	}
	_, s.App1 = m[AppKeys["app1"]]
	_, s.App2 = m[AppKeys["app2"]]
	for k := range m {
		if !knownKeys[k] {
			s.Unknown = append(s.Unknown, k)
		}
	}
	sort.Strings(s.Unknown)
	return s
}

func (w *World) cookieId(v string) int {
	if v == "" {
		return 0
	}
	raw, err := base64.URLEncoding.DecodeString(v)
	if err != nil {
		return -1
	}
	if id := idxOf(w.rmHash, hash512(string(raw))); id >= 1 {
		return id
	}
	// unknown: -2 when it is shaped like a token (pid;32-byte nonce) and so reaches the storage lookup
	if i := len(raw) - 33; i >= 0 && raw[i] == ';' {
		return -2
	}
	return -1
}

// Project maps the real world to the spec's observable state.
func (w *World) Project() Obs {
	w.rebaseSMS()
	now := time.Now().UTC()
	o := Obs{Now: w.Now, Db: map[string]UserObs{}, Sess: map[string]SessObs{}, Cookie: map[string]int{}, Rm: []RmObs{}}
	for _, a := range AllPids {
		if u := w.In.Store.Peek(PidPool[a]); u != nil {
			o.Db[a] = w.userObs(u, now)
		} else {
			o.Db[a] = UserObs{Pw: 0, RLeft: -1, WinLeft: -1, LockLeft: -1, Otps: []int{}, RcLeft: []int{}, Arb: []string{}, Email: "none"}
		}
	}
	// accounts outside the abstract pool must not exist
	for _, pid := range w.In.Store.PIDs() {
		if a := AbsPid(pid); strings.HasPrefix(a, "?") {
			o.Db[a] = w.userObs(w.In.Store.Peek(pid), now)
		}
	}
	for pid, toks := range w.In.Store.RememberTokens() {
		for _, h := range toks {
			o.Rm = append(o.Rm, RmObs{AbsPid(pid), idxOf(w.rmHash, h)})
		}
	}
	sort.Slice(o.Rm, func(i, j int) bool { return o.Rm[i].Id < o.Rm[j].Id })
	for _, b := range w.Browsers {
		o.Sess[b] = w.sessObs(w.In.Sess.Get(b), now)
		o.Cookie[b] = w.cookieId(w.In.Cook.Get(b)[authboss.CookieRemember])
	}
	return o
}

// SamePeriod reports whether the TOTP period of T0 is still the current one
// (otherwise the three reference codes are no longer the valid ones and the
// scenario is re-run).
// refreshT0 moves the reference instant of the TOTP codes into the current period. Code ids keep their
// meaning (1 = this period's code, 3 = the next one's); a last-used code stored before the move is then
// nobody's current code any more, which is also how the library sees it.
func (w *World) refreshT0() bool {
	if now := time.Now(); now.Unix()/30 != w.T0.Unix()/30 {
		w.T0 = now
		return true
	}
	return false
}

func (w *World) SamePeriod() bool {
	// codes 1 (period of T0) and 3 (next period) stay valid across one
	// boundary (totp.Validate allows one period of skew either way); code 2
	// (previous period) is never generated.
	return time.Now().Unix()/30-w.T0.Unix()/30 <= 1
}

// rebaseSMS rewrites every session's sms_last so that its age is exactly the
// number of abstract ticks since it was written (real run time is erased);
// noteSMS records when the library wrote a new value.
func (w *World) rebaseSMS() {
	now := time.Now().UTC().Unix()
	for _, b := range w.Browsers {
		if _, ok := w.In.Sess.Get(b)[sms2fa.SessionSMSLast]; ok {
			v := strconv.FormatInt(now-int64(w.Now-w.smsTick[b])*int64(Unit/G/time.Second), 10)
			w.In.Sess.Set(b, sms2fa.SessionSMSLast, v)
			w.smsSeen[b] = v
		}
	}
}

func (w *World) noteSMS() {
	for _, b := range w.Browsers {
		v, ok := w.In.Sess.Get(b)[sms2fa.SessionSMSLast]
		if ok && v != w.smsSeen[b] {
			w.smsTick[b] = w.Now
			w.smsSeen[b] = v
		}
		if !ok {
			delete(w.smsSeen, b)
		}
	}
}

// SeedRaw creates a confirmed account under an arbitrary concrete PID.
func (w *World) SeedRaw(pid, pw string) {
	h, _ := bcrypt.GenerateFromPassword([]byte(pw), bcrypt.MinCost)
	w.In.Store.Poke(&User{PID: pid, Email: pid, Password: string(h), Confirmed: true})
}

// RawHasSemicolon reports whether the nonce part of a remember cookie contains the separator.
func RawHasSemicolon(cookie string, pidLen int) bool {
	raw, err := base64.URLEncoding.DecodeString(cookie)
	if err != nil || len(raw) <= pidLen+1 {
		return false
	}
	return strings.Contains(string(raw[pidLen+1:]), ";")
}

// ---- C17: secrets must never be stored or logged in recoverable form ----------

type Leak struct {
	Where string `json:"where"`
	Kind  string `json:"kind"`
}

func forms(v string) []string {
	out := []string{v, base64.StdEncoding.EncodeToString([]byte(v)), base64.URLEncoding.EncodeToString([]byte(v)),
		hex.EncodeToString([]byte(v)), url.QueryEscape(v)}
	if raw, err := base64.URLEncoding.DecodeString(v); err == nil && len(raw) >= 16 {
		out = append(out, string(raw), base64.StdEncoding.EncodeToString(raw), hex.EncodeToString(raw))
	}
	return out
}

var logStamp = regexp.MustCompile(`(?m)^\S+ \[(INFO|EROR)\]: `)

// Scan looks for every plaintext secret known to the harness (passwords typed,
// one-time passwords and recovery codes shown, remember cookies, mailed tokens)
// in every stored string field, the remember-token table and the log lines of
// the last step.
func (w *World) Scan(log string) []Leak {
	leaks := []Leak{}
	type field struct{ where, val string }
	var fields []field
	for _, pid := range w.In.Store.PIDs() {
		u := w.In.Store.Peek(pid)
		a := AbsPid(pid)
		for n, v := range map[string]string{"Password": u.Password, "ConfirmSelector": u.ConfirmSelector, "ConfirmVerifier": u.ConfirmVerifier,
			"RecoverSelector": u.RecoverSelector, "RecoverVerifier": u.RecoverVerifier, "OTPs": u.OTPs, "RecoveryCodes": u.RecoveryCodes,
			"TOTPLastCode": "", "OAuth2Token": "", "Email": u.Email} {
			fields = append(fields, field{"store:" + a + "." + n, v})
		}
		for k, v := range u.Arbitrary {
			fields = append(fields, field{"store:" + a + ".Arbitrary." + k, v})
		}
	}
	for pid, toks := range w.In.Store.RememberTokens() {
		for _, t := range toks {
			fields = append(fields, field{"store:remember." + AbsPid(pid), t})
		}
	}
	clean := logStamp.ReplaceAllString(log, "")
	fields = append(fields, field{"log", clean})
	secrets := append([]Secret(nil), w.Secrets...)
	for i, p := range PwPool {
		secrets = append(secrets, Secret{"password", fmt.Sprint(i + 1), p})
	}
	secrets = append(secrets, Secret{"password", "junk", "Zz9?wrong-password"})
	seen := map[string]bool{}
	for _, s := range secrets {
		if len(s.Val) < 6 || s.Kind == "smscode" {
			continue
		}
		for _, f := range forms(s.Val) {
			if len(f) < 6 {
				continue
			}
			for _, fl := range fields {
				if fl.val != "" && strings.Contains(fl.val, f) {
					key := fl.where + "|" + s.Kind
					if !seen[key] {
						seen[key] = true
						leaks = append(leaks, Leak{fl.where, s.Kind})
					}
				}
			}
		}
	}
	sort.Slice(leaks, func(i, j int) bool { return leaks[i].Where+leaks[i].Kind < leaks[j].Where+leaks[j].Kind })
	return leaks
}

// ---- fork support (C16 forked replay, C18 fault enumeration) --------------------

type WorldSnap struct {
	in                                       Snap
	now                                      int
	ct, rt, tt, otp, rc, sc, os, ts, rm, sec int
	smsTick                                  map[string]int
	smsSeen                                  map[string]string
	t0                                       time.Time
	at                                       time.Time // when the snapshot was taken
}

func (w *World) Snapshot() WorldSnap {
	s := WorldSnap{in: w.In.Snapshot(), now: w.Now, t0: w.T0, at: time.Now(), ct: len(w.ct), rt: len(w.rt), tt: len(w.tt), otp: len(w.otp), rc: len(w.rc),
		sc: len(w.sc), os: len(w.os), ts: len(w.ts), rm: len(w.rmHash), sec: len(w.Secrets),
		smsTick: map[string]int{}, smsSeen: map[string]string{}}
	for k, v := range w.smsTick {
		s.smsTick[k] = v
	}
	for k, v := range w.smsSeen {
		s.smsSeen[k] = v
	}
	return s
}

func (w *World) Restore(s WorldSnap) {
	w.In.Restore(s.in)
	w.Now = s.now
	// the stored instants are absolute: make them as old as they were when the snapshot was taken
	// (a long exploration below this point must not age the restored world)
	w.In.AdvanceDur(-time.Since(s.at))
	// the clock does not go back: if the TOTP period moved on since the snapshot, what it stored about
	// last-used codes reads differently now, and the next step says so (pre-observation)
	w.needPre = w.needPre || !s.t0.Equal(w.T0)
	w.ct, w.rt, w.tt, w.otp, w.rc = w.ct[:s.ct], w.rt[:s.rt], w.tt[:s.tt], w.otp[:s.otp], w.rc[:s.rc]
	w.sc, w.os, w.ts, w.rmHash, w.Secrets = w.sc[:s.sc], w.os[:s.os], w.ts[:s.ts], w.rmHash[:s.rm], w.Secrets[:s.sec]
	w.smsTick, w.smsSeen = map[string]int{}, map[string]string{}
	for k, v := range s.smsTick {
		w.smsTick[k] = v
	}
	for k, v := range s.smsSeen {
		w.smsSeen[k] = v
	}
	w.In.Mail.take()
	w.In.SMSOut.take()
	w.In.Log.take()
}
