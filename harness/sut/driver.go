package sut

import (
	"context"
	"encoding/base64"
	"fmt"
	"net/url"
	"sort"
	"strings"
	"time"

	"github.com/pquerna/otp/totp"
	"github.com/volatiletech/authboss/v3"
	"github.com/volatiletech/authboss/v3/otp/twofactor/totp2fa"
	"golang.org/x/crypto/bcrypt"
)

var bg = context.Background()

// Event is one abstract step; field meanings are per action (see
// spec/Authboss.tla). Junk selects the concrete variant of a rejecting class
// and is not read by the specification.
type Event struct {
	Act     string `json:"act"`
	B       string `json:"b"`
	Pid     string `json:"pid"`
	Pw      int    `json:"pw"`
	Tok     int    `json:"tok"`
	Rm      bool   `json:"rm"`
	Valid   bool   `json:"valid"`
	D       int    `json:"d"`
	Method  string `json:"method"`
	Code    int    `json:"code"`
	Rc      int    `json:"rc"`
	G       int    `json:"g"`
	Kind    string `json:"kind"`
	Prov    string `json:"prov"`
	Outcome string `json:"outcome"`
	Phone   int    `json:"phone"`
	Redir   string `json:"redir"`
	K       string `json:"k"`
	Junk    string `json:"junk"`
	Fault   int    `json:"fault"`
	FaultE  string `json:"faultE"`
}

// Norm fills absent string fields with "none" (the spec has no empty strings).
func (e *Event) Norm() {
	def := func(s *string) {
		if *s == "" {
			*s = "none"
		}
	}
	def(&e.B)
	def(&e.Pid)
	def(&e.Method)
	def(&e.Kind)
	def(&e.Prov)
	def(&e.Outcome)
	def(&e.Redir)
	def(&e.K)
	def(&e.Junk)
	def(&e.FaultE)
}

type MailObs struct {
	To   []string `json:"to"`
	Kind string   `json:"kind"`
	Tok  int      `json:"tok"`
}

type SmsObs struct {
	Phone int `json:"phone"`
	Code  int `json:"code"`
}

type RespObs struct {
	Class    string    `json:"class"`
	Loc      string    `json:"loc"`
	Ran      bool      `json:"ran"`
	SeenUser string    `json:"seenUser"`
	SeenKeys []string  `json:"seenKeys"`
	Mails    []MailObs `json:"mails"`
	Sms      []SmsObs  `json:"sms"`
	Status   int       `json:"status"`
	Calls    []Call    `json:"calls,omitempty"`
	ACalls   []Call    `json:"acalls"` // the same, abstracted: kind + (for mutations) the abstract pid
	Wf       bool      `json:"wf"`     // the rejected token/cookie of this event is well formed enough to reach storage
	Junk     string    `json:"junk,omitempty"` // the concrete variant of a rejecting class this execution used (makes replays exact)
	Pre      *Obs      `json:"pre,omitempty"`  // the projection right before the request, when it differs from the previous post-state (TOTP period moved on)
	Panic    string    `json:"panic,omitempty"`
	FaultHit bool      `json:"faultHit"`
	Leaks    []Leak    `json:"leaks"`
}

// SafeRedir is the same-site return target the composite model uses (hostile
// targets are the business of spec/RedirectGuard.tla).
const SafeRedir = "/app/home?x=1"

var locNames = map[string]string{
	"/ok/login": "loginOK", "/ok/confirm": "confirmOK", "/no/confirm": "confirmNotOK",
	"/no/lock": "lockNotOK", "/ok/logout": "logoutOK", "/ok/oauth2": "oauth2OK",
	"/no/oauth2": "oauth2NotOK", "/ok/recover": "recoverOK", "/ok/register": "registerOK",
	"/no/tfaemail":            "tfaEmailNotOK",
	"/auth/2fa/totp/validate": "totpValidate", "/auth/2fa/sms/validate": "smsValidate",
	"/auth/2fa/totp/confirm": "totpConfirm", "/auth/2fa/sms/confirm": "smsConfirm",
	"/auth/2fa/totp/setup": "totpSetup", "/auth/2fa/sms/setup": "smsSetup",
	"/auth/2fa/totp/email/verify": "totpEmailVerify", "/auth/2fa/sms/email/verify": "smsEmailVerify",
	SafeRedir: "redir", "/app/tfa-changed": "appTfaChanged",
}

var pageNames = map[string]string{
	"login": "login", "register": "register", "recover_start": "recoverStart", "recover_end": "recoverEnd",
	"otplogin": "otpLogin", "otpadd": "otpAdd", "otpclear": "otpClear",
	"totp2fa_validate": "totpValidate", "totp2fa_confirm": "totpConfirm", "totp2fa_confirm_success": "totpConfirmOK",
	"totp2fa_remove": "totpRemove", "totp2fa_remove_success": "totpRemoveOK", "totp2fa_setup": "totpSetup",
	"sms2fa_validate": "smsValidate", "sms2fa_confirm": "smsConfirm", "sms2fa_confirm_success": "smsConfirmOK",
	"sms2fa_remove": "smsRemove", "sms2fa_remove_success": "smsRemoveOK", "sms2fa_setup": "smsSetup",
	"recovery2fa": "recovery2fa", "twofactor_verify": "tfaVerify",
}

var absKey = map[string]string{
	authboss.SessionKey: "uid", authboss.SessionHalfAuthKey: "half", authboss.SessionLastAction: "lastAct",
	authboss.Session2FA: "twofa", authboss.Session2FAAuthToken: "tfaTok", authboss.Session2FAAuthed: "tfaAuthed",
	authboss.SessionOAuth2State: "oState", authboss.SessionOAuth2Params: "oHas",
	totp2fa.SessionTOTPSecret: "totpSetup", totp2fa.SessionTOTPPendingPID: "totpPend",
	"sms_number": "smsNum", "sms_secret": "smsCode", "sms_last": "smsLast", "sms_pending": "smsPend",
	"visitor_uuid": "app1", "hide_twofactor_hint": "app2",
}

func (w *World) pwString(e Event) string {
	if e.Pw >= 1 && e.Pw <= len(PwPool) {
		return PwPool[e.Pw-1]
	}
	switch e.Junk {
	case "empty":
		return ""
	case "hash":
		if u := w.In.Store.Peek(PidPool[e.Pid]); u != nil {
			return u.Password
		}
		return "$2a$04$abcdefghijklmnopqrstuv"
	case "long":
		return strings.Repeat("Aa1!", 20000)
	case "nul":
		return "Aa1!aaaa\x00"
	case "prefix":
		return PwPool[0][:len(PwPool[0])-1]
	}
	// spellings derived from the account's CURRENT password: only the exact string is the credential
	if strings.HasPrefix(e.Junk, "own:") {
		if cur := w.currentPassword(e.Pid); cur != "" {
			switch strings.TrimPrefix(e.Junk, "own:") {
			case "lead":
				return " " + cur
			case "trail":
				return cur + " "
			case "nl":
				return cur + "\n"
			case "tab":
				return "\t" + cur
			case "case":
				return swapCase(cur)
			case "twice":
				return cur + cur
			}
		}
	}
	return "Zz9?wrong-password"
}

// currentPassword finds, among the passwords the harness has ever typed, the one the account's stored hash accepts.
func (w *World) currentPassword(pid string) string {
	u := w.In.Store.Peek(PidPool[pid])
	if u == nil || u.Password == "" {
		return ""
	}
	for _, p := range PwPool {
		if bcrypt.CompareHashAndPassword([]byte(u.Password), []byte(p)) == nil {
			return p
		}
	}
	return ""
}

func swapCase(s string) string {
	b := []byte(s)
	for i, c := range b {
		switch {
		case c >= 'a' && c <= 'z':
			b[i] = c - 32
		case c >= 'A' && c <= 'Z':
			b[i] = c + 32
		}
	}
	return string(b)
}

// padded / re-cased spellings of a genuine one-time secret (OTP, recovery code)
func respell(genuine, junk string) string {
	switch strings.TrimPrefix(junk, "own:") {
	case "lead":
		return " " + genuine
	case "trail":
		return genuine + " "
	case "nl":
		return genuine + "\n"
	case "tab":
		return "\t" + genuine
	case "case":
		return swapCase(genuine)
	case "twice":
		return genuine + genuine
	}
	return genuine + "x"
}

func flipBit(raw []byte, n int) []byte {
	out := append([]byte(nil), raw...)
	n = n % (len(out) * 8)
	out[n/8] ^= 1 << uint(n%8)
	return out
}

// mailedToken concretises a confirm/recover token class.
func (w *World) mailedToken(list []string, e Event, kind string) string {
	var genuine string
	if e.Tok >= 1 && e.Tok <= len(list) {
		genuine = list[e.Tok-1]
	}
	j := e.Junk
	if e.Tok >= 1 {
		switch j {
		case "altb64": // same bytes, padding-free/std alphabet do not decode with URLEncoding; keep identical
			return genuine
		}
		return genuine
	}
	// rejecting classes; most are derived from the newest genuine token
	base := ""
	if len(list) > 0 {
		base = list[len(list)-1]
	}
	raw, _ := base64.URLEncoding.DecodeString(base)
	switch {
	case j == "empty":
		return ""
	case strings.HasPrefix(j, "flip:") && len(raw) == 64:
		var n int
		fmt.Sscanf(j, "flip:%d", &n)
		return base64.URLEncoding.EncodeToString(flipBit(raw, n))
	case j == "trunc" && len(raw) == 64:
		return base64.URLEncoding.EncodeToString(raw[:63])
	case j == "ext" && len(raw) == 64:
		return base64.URLEncoding.EncodeToString(append(append([]byte(nil), raw...), 'x'))
	case j == "trail" && base != "":
		return base + "A" // undecodable: genuine token + trailing junk byte
	case strings.HasPrefix(j, "sfx:") && base != "":
		// the genuine token with something glued on that is not part of its alphabet (punctuation a mail
		// client appends, a tracking parameter, a blank, a NUL, the token again). Not CR / LF: Go's base64
		// decoder skips them, so that is another spelling of the same bytes, which the property accepts
		return base + map[string]string{"dot": ".", "paren": ")", "amp": "&utm_source=mail", "space": " ", "nul": "\x00", "dup": "!" + base}[strings.TrimPrefix(j, "sfx:")]
	case j == "pfx:space" && base != "":
		return " " + base
	case j == "splice" && len(list) >= 2:
		a, _ := base64.URLEncoding.DecodeString(list[len(list)-1])
		b, _ := base64.URLEncoding.DecodeString(list[len(list)-2])
		if len(a) == 64 && len(b) == 64 {
			return base64.URLEncoding.EncodeToString(append(append([]byte(nil), a[:32]...), b[32:]...))
		}
	case j == "stored":
		// what storage holds, replayed as the secret
		for _, pid := range w.In.Store.PIDs() {
			u := w.In.Store.Peek(pid)
			sel, ver := u.ConfirmSelector, u.ConfirmVerifier
			if kind == "recover" {
				sel, ver = u.RecoverSelector, u.RecoverVerifier
			}
			if sel != "" {
				s, _ := base64.StdEncoding.DecodeString(sel)
				v, _ := base64.StdEncoding.DecodeString(ver)
				if len(s) >= 32 && len(v) >= 32 {
					return base64.URLEncoding.EncodeToString(append(append([]byte(nil), s[:32]...), v[:32]...))
				}
			}
		}
	case j == "zero":
		return base64.URLEncoding.EncodeToString(make([]byte, 64))
	}
	return "bm90LWEtdG9rZW4"
}

func pick(list []string, id int, junk string) string {
	if id >= 1 && id <= len(list) {
		return list[id-1]
	}
	switch junk {
	case "empty":
		return ""
	}
	return "junk-" + junk
}

// totpCode returns one of the three simultaneously valid codes of a secret.
func (w *World) totpCode(secretID, which int, junk string) string {
	if secretID < 1 || secretID > len(w.ts) || which < 1 {
		if which == 0 {
			return ""
		}
		return "000000"
	}
	return w.totpCodeAt(secretID, which)
}

func (w *World) totpCodeAt(secretID, which int) string {
	t := w.T0
	switch which {
	case 2:
		t = t.Add(-30 * time.Second)
	case 3:
		t = t.Add(30 * time.Second)
	}
	c, err := totp.GenerateCode(w.ts[secretID-1], t)
	if err != nil {
		return "000000"
	}
	return c
}

func (w *World) rcString(g, i int, junk string) string {
	if g >= 1 && g <= len(w.rc) && i >= 1 && i <= len(w.rc[g-1]) {
		return w.rc[g-1][i-1]
	}
	if junk == "hash" {
		for _, pid := range w.In.Store.PIDs() {
			if u := w.In.Store.Peek(pid); u.RecoveryCodes != "" {
				return strings.Split(u.RecoveryCodes, ",")[0]
			}
		}
	}
	return "zzzzz-zzzzz"
}

// BuildReq concretises an abstract event.
func (w *World) BuildReq(e Event) Req {
	rq := Req{Browser: e.B, Method: "POST", Fault: e.Fault, FaultE: e.FaultE}
	pid := PidPool[e.Pid]
	if e.Junk == "case" && w.In.Cfg.FoldPid {
		// a look-alike spelling the (normalising) store resolves to the same account
		pid = strings.ToUpper(pid[:1]) + pid[1:]
	}
	form := map[string]string{}
	switch e.Act {
	case "LoginPost":
		rq.Path = "/auth/login"
		form["email"], form["password"] = pid, w.pwString(e)
		if e.Rm {
			form["rm"] = "true"
		}
		if e.Redir != "none" {
			form["redir"] = SafeRedir
		}
	case "OtpLoginPost":
		rq.Path = "/auth/otp/login"
		form["email"] = pid
		form["password"] = pick(w.otp, e.Tok, e.Junk)
		if e.Tok <= 0 && strings.HasPrefix(e.Junk, "own:") {
			// a live one-time password of this account, respelled
			if u := w.In.Store.Peek(pid); u != nil && u.OTPs != "" {
				for _, o := range w.otp {
					if strings.Contains(u.OTPs, Hash512(o)) {
						form["password"] = respell(o, e.Junk)
						break
					}
				}
			}
		}
		if e.Junk == "hash" {
			if u := w.In.Store.Peek(pid); u != nil {
				form["password"] = u.OTPs
			}
		}
		if e.Rm {
			form["rm"] = "true"
		}
		if e.Redir != "none" {
			form["redir"] = SafeRedir
		}
	case "OtpAdd":
		rq.Path = "/auth/otp/add"
	case "OtpClear":
		rq.Path = "/auth/otp/clear"
	case "RegisterPost":
		rq.Path = "/auth/register"
		pw := w.pwString(e)
		form["email"], form["password"], form["confirm_password"] = pid, pw, pw
		if !e.Valid && (e.Junk == "none" || e.Junk == "" || e.Junk == "extra") {
			e.Junk = "weak"
		}
		switch e.Junk {
		case "weak":
			form["password"], form["confirm_password"] = "short", "short"
		case "mismatch":
			form["confirm_password"] = pw + "x"
		case "nopw":
			delete(form, "password")
			delete(form, "confirm_password")
		case "noconfirm":
			delete(form, "confirm_password")
		case "bademail":
			form["email"] = "not-an-address"
		case "extra":
			form["admin"], form["confirmed"], form["locked"], form["role"] = "true", "true", "", "root"
		}
	case "ConfirmGet":
		rq.Method = "GET"
		tk := w.mailedToken(w.ct, e, "confirm")
		rq.Path = "/auth/confirm?cnf=" + url.QueryEscape(tk)
		_, _, rq.Wf = tokenHashes(tk)
		if e.Junk == "missing" {
			rq.Path = "/auth/confirm"
			rq.Wf = false
		}
	case "RecoverStart":
		rq.Path = "/auth/recover"
		form["email"] = pid
		if e.Junk == "bademail" || !e.Valid {
			form["email"] = "nobody"
		}
	case "RecoverEnd":
		rq.Path = "/auth/recover/end"
		pw := w.pwString(e)
		form["token"], form["password"], form["confirm_password"] = w.mailedToken(w.rt, e, "recover"), pw, pw
		_, _, rq.Wf = tokenHashes(form["token"])
		if !e.Valid {
			switch e.Junk {
			case "mismatch":
				form["confirm_password"] = pw + "x"
			default:
				form["password"], form["confirm_password"] = "short", "short"
			}
		}
	case "OAuthStart":
		rq.Method = "GET"
		q := url.Values{}
		if e.Rm {
			q.Set("rm", "true")
		}
		if e.Redir != "none" {
			q.Set("redir", SafeRedir)
		}
		rq.Path = "/auth/oauth2/" + e.Prov
		if len(q) > 0 {
			rq.Path += "?" + q.Encode()
		}
	case "OAuthCallback":
		rq.Method = "GET"
		q := url.Values{}
		if e.Junk != "nostate" {
			q.Set("state", pick(w.os, e.Tok, e.Junk))
		}
		switch e.Outcome {
		case "error":
			q.Set("error", "access_denied")
		case "exchangeFail":
			q.Set("code", "bad")
		default:
			q.Set("code", "uid:"+OUidPool[e.Outcome])
		}
		rq.Path = "/auth/oauth2/callback/" + e.Prov + "?" + q.Encode()
	case "TotpSetup":
		rq.Path = "/auth/2fa/totp/setup"
	case "TotpSetupGet":
		rq.Method, rq.Path = "GET", "/auth/2fa/totp/setup"
	case "TotpConfirm":
		rq.Path = "/auth/2fa/totp/confirm"
		form["code"] = w.totpCode(e.Tok, e.Code, e.Junk)
	case "TotpRemove", "TotpValidate":
		rq.Path = "/auth/2fa/totp/remove"
		if e.Act == "TotpValidate" {
			rq.Path = "/auth/2fa/totp/validate"
			if e.Redir != "none" {
				form["redir"] = SafeRedir
			}
		}
		if e.Rc != 0 {
			form["recovery_code"] = w.rcString(e.G, e.Rc, e.Junk)
		} else {
			form["code"] = w.totpCode(e.Tok, e.Code, e.Junk)
			if e.Junk == "space" && e.Code >= 1 {
				form["code"] += " " // the same code, typed with a trailing blank
			}
		}
	case "SmsSetup":
		rq.Path = "/auth/2fa/sms/setup"
		if e.Phone >= 1 {
			form["phone_number"] = PhonePool[e.Phone-1]
		}
	case "SmsSetupGet":
		rq.Method, rq.Path = "GET", "/auth/2fa/sms/setup"
	case "SmsConfirm", "SmsRemove", "SmsValidate":
		rq.Path = map[string]string{"SmsConfirm": "/auth/2fa/sms/confirm", "SmsRemove": "/auth/2fa/sms/remove", "SmsValidate": "/auth/2fa/sms/validate"}[e.Act]
		if e.Act == "SmsValidate" && e.Redir != "none" {
			form["redir"] = SafeRedir
		}
		if e.Rc != 0 {
			form["recovery_code"] = w.rcString(e.G, e.Rc, e.Junk)
		} else if e.Code != 0 {
			form["code"] = pick(w.sc, e.Code, e.Junk)
		}
	case "RecoveryRegen":
		rq.Path = "/auth/2fa/recovery/regen"
	case "EmailVerifyStart":
		rq.Path = "/auth/2fa/" + e.Kind + "/email/verify"
	case "EmailVerifyEnd":
		rq.Method = "GET"
		rq.Path = "/auth/2fa/" + e.Kind + "/email/verify/end?token=" + url.QueryEscape(pick(w.tt, e.Tok, e.Junk))
		if e.Junk == "missing" {
			rq.Path = "/auth/2fa/" + e.Kind + "/email/verify/end"
		}
	case "Get":
		rq.Method = "GET"
		rq.Path = map[string]string{"login": "/auth/login", "register": "/auth/register", "recover": "/auth/recover",
			"recoverEnd": "/auth/recover/end?token=abc", "otpLogin": "/auth/otp/login", "otpAdd": "/auth/otp/add", "otpClear": "/auth/otp/clear",
			"totpConfirm": "/auth/2fa/totp/confirm", "totpRemove": "/auth/2fa/totp/remove", "totpValidate": "/auth/2fa/totp/validate",
			"smsConfirm": "/auth/2fa/sms/confirm", "smsRemove": "/auth/2fa/sms/remove", "smsValidate": "/auth/2fa/sms/validate",
			"recoveryRegen": "/auth/2fa/recovery/regen", "totpEmailVerify": "/auth/2fa/totp/email/verify",
			"smsEmailVerify": "/auth/2fa/sms/email/verify"}[e.K]
		if rq.Path == "" {
			rq.Path = "/auth/nothing-here"
		}
	case "BadMethod":
		// a method the shipped router does not serve, on any route (k as for Get, or "logout")
		rq.Method = e.Method
		if e.K == "logout" {
			rq.Path = "/auth/logout"
		} else {
			ge := e
			ge.Act = "Get"
			rq.Path = w.BuildReq(ge).Path
		}
	case "Logout":
		rq.Method, rq.Path = e.Method, "/auth/logout"
	case "Probe":
		rq.Method, rq.Path = "GET", "/probe"
		// the same protected handler mounted under other paths (k selects; the spec does not read it)
		switch e.K {
		case "alt1":
			rq.Path = "/no/confirm/zone"
		case "alt2":
			rq.Path = "/no/lock/zone"
		case "alt3":
			rq.Path = "/ok/login/zone"
		case "bare":
			rq.Path = "/bare"
		}
	default:
		panic("BuildReq: unknown act " + e.Act)
	}
	if w.In.Cfg.JSON {
		// API mode: the body is JSON; the return target is only honoured from the query string
		if v, ok := form["redir"]; ok {
			delete(form, "redir")
			sep := "?"
			if strings.Contains(rq.Path, "?") {
				sep = "&"
			}
			rq.Path += sep + "redir=" + url.QueryEscape(v)
		}
	}
	if rq.Method != "GET" {
		rq.Form = form
	}
	if w.In.Cfg.JSON && rq.Method == "GET" && (e.Act == "ConfirmGet" || e.Act == "EmailVerifyEnd") {
		// API mode: mail routes are POST with the token in the JSON body
		u, _ := url.Parse(rq.Path)
		rq.Method, rq.Path = "POST", u.Path
		rq.Form = map[string]string{}
		for k, v := range u.Query() {
			rq.Form[k] = v[0]
		}
	}
	return rq
}

// learn registers every secret a real client was shown by this response.
func (w *World) learn(r Resp) {
	for _, m := range r.Mails {
		switch m.Kind {
		case "confirm":
			w.ct = append(w.ct, m.Tok)
		case "recover":
			w.rt = append(w.rt, m.Tok)
		case "tfaverify":
			w.tt = append(w.tt, m.Tok)
		}
		w.Secrets = append(w.Secrets, Secret{"mailtoken:" + m.Kind, strings.Join(m.To, ","), m.Tok})
	}
	for _, m := range r.LostMails {
		// never delivered: not a usable token for the scenario, but a secret the scanner must not find anywhere
		w.Secrets = append(w.Secrets, Secret{"mailtoken:" + m.Kind, strings.Join(m.To, ","), m.Tok})
	}
	for _, s := range r.SMSs {
		w.sc = append(w.sc, s.Code)
		w.Secrets = append(w.Secrets, Secret{"smscode", s.Number, s.Code})
	}
	if r.JSON != nil {
		if o, ok := r.JSON["otp"].(string); ok && o != "" {
			w.otp = append(w.otp, o)
			w.Secrets = append(w.Secrets, Secret{"otp", "", o})
		}
		if l, ok := r.JSON["recovery_codes"].([]interface{}); ok && len(l) > 0 {
			gen := []string{}
			for _, x := range l {
				if s, ok := x.(string); ok {
					gen = append(gen, s)
					w.Secrets = append(w.Secrets, Secret{"recoverycode", "", s})
				}
			}
			w.rc = append(w.rc, gen)
		}
	}
	for _, b := range w.Browsers {
		m := w.In.Sess.Get(b)
		if v, ok := m[totp2fa.SessionTOTPSecret]; ok && idxOf(w.ts, v) < 0 {
			w.ts = append(w.ts, v)
		}
		if v, ok := m[authboss.SessionOAuth2State]; ok && idxOf(w.os, v) < 0 {
			w.os = append(w.os, v)
		}
	}
	for _, wr := range r.Writes {
		if wr.Store != "cookie" {
			continue
		}
		for _, ev := range wr.Events {
			if ev.Kind == authboss.ClientStateEventPut && ev.Key == authboss.CookieRemember {
				w.Secrets = append(w.Secrets, Secret{"remembercookie", "", ev.Value})
			}
		}
	}
}

func (w *World) classify(e Event, r Resp) RespObs {
	o := RespObs{Class: "none", Loc: "none", SeenUser: "none", SeenKeys: []string{}, Mails: []MailObs{}, Sms: []SmsObs{}, Leaks: []Leak{},
		Status: r.Status, Calls: r.Calls, ACalls: absCalls(r.Calls), Panic: r.Panic, FaultHit: r.FaultHit}
	for _, m := range r.Mails {
		mo := MailObs{Kind: m.Kind, To: []string{}}
		for _, t := range m.To {
			mo.To = append(mo.To, AbsPid(t))
		}
		sort.Strings(mo.To)
		switch m.Kind {
		case "confirm":
			mo.Tok = idxOf(w.ct, m.Tok)
		case "recover":
			mo.Tok = idxOf(w.rt, m.Tok)
		case "tfaverify":
			mo.Tok = idxOf(w.tt, m.Tok)
		}
		o.Mails = append(o.Mails, mo)
	}
	for _, s := range r.SMSs {
		o.Sms = append(o.Sms, SmsObs{idxOf(PhonePool, s.Number), idxOf(w.sc, s.Code)})
	}
	if r.Probe != nil {
		o.Ran = r.Probe.Ran
		o.SeenUser = AbsPid(r.Probe.User)
		for k := range r.Probe.SeenKeys {
			if a, ok := absKey[k]; ok {
				o.SeenKeys = append(o.SeenKeys, a)
			}
		}
		sort.Strings(o.SeenKeys)
	}
	loc := r.Location
	isRedirect := r.Status == 302 || r.Status == 307 || (r.JSON != nil && r.JSON["location"] != nil)
	switch {
	case r.Panic != "":
		o.Class = "panic"
	case !r.WroteHead:
		o.Class = "errorSilent"
	case r.Status == 500:
		o.Class = "error500"
	case r.Status == 405:
		o.Class = "method405"
	case r.Status == 404:
		o.Class = "notfound"
		if r.Body == "" { // Middleware2 writes a bare 404; the router's NotFound handler writes a body
			o.Class = "refuse404"
		}
	case r.Status == 401:
		o.Class = "refuse401"
	case isRedirect:
		o.Class = "redirect"
		if strings.HasPrefix(loc, "/auth/login?") {
			o.Class = "refuseLogin"
		} else if strings.HasPrefix(loc, "http://pa.test/auth") || strings.HasPrefix(loc, "http://pb.test/auth") {
			o.Loc = "provider"
		} else if n, ok := locNames[loc]; ok {
			o.Loc = n
		} else if u, err := url.Parse(loc); err == nil && locNames[u.Path] != "" {
			o.Loc = locNames[u.Path]
		} else {
			o.Loc = "?" + loc
		}
	case r.Probe != nil && r.Probe.Ran:
		o.Class = "ok"
	case r.Status == 200:
		o.Class = "page"
		if n, ok := pageNames[r.Page]; ok {
			o.Loc = n
		} else {
			o.Loc = "?" + r.Page
		}
	default:
		o.Class = fmt.Sprintf("status%d", r.Status)
	}
	return o
}

// Step executes one abstract event against the real instance.
func (w *World) Step(e Event) (RespObs, *Req, Resp) {
	e.Norm()
	switch e.Act {
	case "Tick": // whole ticks
		w.In.Tick(e.D)
		w.Now += G * e.D
		return envResp(), nil, Resp{}
	case "Tock": // single units
		w.In.Advance(e.D)
		w.Now += e.D
		return envResp(), nil, Resp{}
	case "AdminLock":
		if err := w.In.LockMod.Lock(bg, PidPool[e.Pid]); err != nil && err != authboss.ErrUserNotFound {
			panic(err)
		}
		return envResp(), nil, Resp{}
	case "AdminUnlock":
		if err := w.In.LockMod.Unlock(bg, PidPool[e.Pid]); err != nil && err != authboss.ErrUserNotFound {
			panic(err)
		}
		return envResp(), nil, Resp{}
	case "RestartConfirm":
		u, err := w.In.Store.Load(bg, PidPool[e.Pid])
		if err == authboss.ErrUserNotFound {
			return envResp(), nil, Resp{}
		}
		if err != nil {
			panic(err)
		}
		if err := w.In.ConfMod.StartConfirmation(bg, authboss.MustBeConfirmable(u), true); err != nil {
			panic(err)
		}
		r := Resp{Mails: w.In.Mail.take()}
		lg := w.In.Log.take()
		w.learn(r)
		ro := w.classify(e, Resp{Mails: r.Mails, WroteHead: true, Status: 0})
		ro.Leaks = w.Scan(lg)
		return ro, nil, r
	case "UpdatePassword":
		u, err := w.In.Store.Load(bg, PidPool[e.Pid])
		if err == authboss.ErrUserNotFound {
			return envResp(), nil, Resp{}
		}
		if err != nil {
			panic(err)
		}
		if err := w.In.AB.UpdatePassword(bg, authboss.MustBeAuthable(u), w.pwString(e)); err != nil {
			panic(err)
		}
		return envResp(), nil, Resp{}
	case "StealCookie":
		v := w.In.Cook.Get(e.B)[authboss.CookieRemember]
		if v == "" {
			w.In.Cook.Del(e.K, authboss.CookieRemember)
		} else {
			w.In.Cook.Set(e.K, authboss.CookieRemember, v)
		}
		return envResp(), nil, Resp{}
	case "DropSession":
		w.In.Sess.Clear(e.B)
		delete(w.smsSeen, e.B)
		return envResp(), nil, Resp{}
	case "JunkCookie":
		v := "bm90IGEgdG9rZW4"
		switch e.Junk {
		case "nosep":
			v = base64.URLEncoding.EncodeToString([]byte("no-separator-here"))
		case "forged":
			v = base64.URLEncoding.EncodeToString([]byte(PidPool["u1"] + ";0123456789abcdef0123456789abcdef"))
		case "hash":
			for _, toks := range w.In.Store.RememberTokens() {
				if len(toks) > 0 {
					v = toks[0]
				}
			}
		}
		w.In.Cook.Set(e.B, authboss.CookieRemember, v)
		er := envResp()
		er.Wf = w.cookieId(v) == -2
		return er, nil, Resp{}
	case "AppKey":
		w.In.Sess.Set(e.B, AppKeys[e.K], "v-"+e.K)
		return envResp(), nil, Resp{}
	}
	if e.Junk == "none" || e.Junk == "" {
		// a rejecting class without a chosen variant (TLC-generated and exhaustively explored events):
		// rotate through the concrete variants so that every replay tries another hostile spelling
		w.junkN++
		switch {
		case (e.Act == "LoginPost" || e.Act == "RegisterPost") && e.Pw <= 0 && e.Valid:
			e.Junk = []string{"wrong", "empty", "hash", "prefix", "nul", "long", "own:lead", "own:trail", "own:nl", "own:tab", "own:case", "own:twice"}[w.junkN%12]
		case (e.Act == "ConfirmGet" || e.Act == "RecoverEnd") && e.Tok <= 0:
			e.Junk = []string{"garbage", "empty", "flip:0", "flip:511", "flip:256", "trunc", "ext", "trail", "splice", "stored", "zero",
				"sfx:dot", "sfx:amp", "sfx:space", "sfx:nul", "sfx:dup", "sfx:paren", "pfx:space"}[w.junkN%18]
		case e.Act == "OtpLoginPost" && e.Tok <= 0:
			e.Junk = []string{"garbage", "empty", "hash", "own:lead", "own:trail", "own:nl", "own:case", "own:twice"}[w.junkN%8]
		case e.Act == "EmailVerifyEnd" && e.Tok <= 0:
			e.Junk = []string{"garbage", "empty", "missing"}[w.junkN%3]
		case e.Act == "OAuthCallback" && e.Tok <= 0:
			e.Junk = []string{"garbage", "empty", "nostate"}[w.junkN%3]
		}
	}
	var pre *Obs
	if w.refreshT0() || w.needPre {
		o := w.Project()
		pre = &o
		w.needPre = false
	}
	rq := w.BuildReq(e)
	w.rebaseSMS()
	r := w.In.Do(rq)
	w.noteSMS()
	w.learn(r)
	ro := w.classify(e, r)
	ro.Wf = rq.Wf
	ro.Junk = e.Junk
	ro.Pre = pre
	ro.Leaks = w.Scan(r.Log)
	return ro, &rq, r
}

func envResp() RespObs {
	return RespObs{Class: "none", Loc: "none", SeenUser: "none", SeenKeys: []string{}, Mails: []MailObs{}, Sms: []SmsObs{}, Leaks: []Leak{}, ACalls: []Call{}}
}

// absCalls abstracts the backend call log: the kind, and for the calls that
// change an account's stored data the abstract pid they were made for.
func absCalls(cs []Call) []Call {
	out := []Call{}
	for _, c := range cs {
		k := "-"
		switch c.Kind {
		case "Save", "Create", "SaveOAuth2", "AddRememberToken", "DelRememberTokens":
			k = AbsPid(c.Key)
		}
		kind := c.Kind
		out = append(out, Call{kind, k})
	}
	return out
}

// ApplySeed creates the initial accounts directly in storage.
func (w *World) ApplySeed(seeds []SeedUser) {
	for _, s := range seeds {
		u := &User{PID: PidPool[s.Pid], Email: PidPool[s.Pid], Confirmed: s.Conf}
		if s.Pid == "u2" {
			u.Secondary = []string{PidPool["u2s"]}
		}
		if s.Pw >= 1 {
			h, _ := bcrypt.GenerateFromPassword([]byte(PwPool[s.Pw-1]), bcrypt.MinCost)
			u.Password = string(h)
		}
		if s.Totp {
			k, err := totp.Generate(totp.GenerateOpts{Issuer: "verif", AccountName: u.Email})
			if err != nil {
				panic(err)
			}
			w.ts = append(w.ts, k.Secret())
			u.TOTPSecretKey = k.Secret()
		}
		if s.Sms >= 1 {
			u.SMSPhone = PhonePool[s.Sms-1]
		}
		var hs []string
		for i := 0; i < s.Otps; i++ {
			o := fmt.Sprintf("seed-otp-%s-%d", s.Pid, i)
			w.otp = append(w.otp, o)
			w.Secrets = append(w.Secrets, Secret{"otp", s.Pid, o})
			hs = append(hs, hash512(o))
		}
		u.OTPs = strings.Join(hs, ",")
		if s.Rc {
			gen, hashes := []string{}, []string{}
			for i := 0; i < 10; i++ {
				c := fmt.Sprintf("s%s%02d-%05d", strings.TrimPrefix(s.Pid, "u"), i, len(w.rc))
				gen = append(gen, c)
				h, _ := bcrypt.GenerateFromPassword([]byte(c), bcrypt.MinCost)
				hashes = append(hashes, string(h))
				w.rcCache[string(h)] = [2]int{len(w.rc) + 1, i + 1}
				w.Secrets = append(w.Secrets, Secret{"recoverycode", s.Pid, c})
			}
			w.rc = append(w.rc, gen)
			u.RecoveryCodes = strings.Join(hashes, ",")
		}
		w.In.Store.Poke(u)
	}
}

// Issued reports the per-kind counters after seeding.
func (w *World) Issued() map[string]int {
	return map[string]int{"ct": len(w.ct), "rt": len(w.rt), "rm": len(w.rmHash), "otp": len(w.otp),
		"rc": len(w.rc), "sc": len(w.sc), "os": len(w.os), "tt": len(w.tt), "ts": len(w.ts)}
}
