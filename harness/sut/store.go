// Package sut assembles a real authboss instance over harness-owned,
// database-like components (copying store, server-side client-state stores,
// capturing mailer / SMS sender / logger) and drives it with in-process
// requests. Nothing in here replaces library code: router, body reader,
// responder, redirector, error handler, client-state writer and every module
// are the repository's own.
package sut

import (
	"context"
	"errors"
	"sort"
	"strings"
	"sync"
	"time"

	"github.com/volatiletech/authboss/v3"
)

// User implements every optional user interface of the library.
type User struct {
	PID      string
	Email    string
	Password string

	Confirmed       bool
	ConfirmSelector string
	ConfirmVerifier string

	AttemptCount int
	LastAttempt  time.Time
	Locked       time.Time

	RecoverSelector string
	RecoverVerifier string
	RecoverExpiry   time.Time

	OTPs          string
	RecoveryCodes string
	TOTPSecretKey string
	TOTPLastCode  string
	SMSPhone      string

	OAuth2UID      string
	OAuth2Provider string
	OAuth2Token    string
	OAuth2Refresh  string
	OAuth2Expiry   time.Time

	Secondary []string
	Arbitrary map[string]string
}

func (u *User) clone() *User {
	c := *u
	if u.Arbitrary != nil {
		c.Arbitrary = make(map[string]string, len(u.Arbitrary))
		for k, v := range u.Arbitrary {
			c.Arbitrary[k] = v
		}
	}
	c.Secondary = append([]string(nil), u.Secondary...)
	return &c
}

func (u *User) GetPID() string                 { return u.PID }
func (u *User) PutPID(p string)                { u.PID = p }
func (u *User) GetPassword() string            { return u.Password }
func (u *User) PutPassword(p string)           { u.Password = p }
func (u *User) GetEmail() string {
	if u.Email == "" { // an account registered without an e-mail field is reachable at its PID
		return u.PID
	}
	return u.Email
}
func (u *User) PutEmail(e string)              { u.Email = e }
func (u *User) GetConfirmed() bool             { return u.Confirmed }
func (u *User) PutConfirmed(c bool)            { u.Confirmed = c }
func (u *User) GetConfirmSelector() string     { return u.ConfirmSelector }
func (u *User) PutConfirmSelector(s string)    { u.ConfirmSelector = s }
func (u *User) GetConfirmVerifier() string     { return u.ConfirmVerifier }
func (u *User) PutConfirmVerifier(s string)    { u.ConfirmVerifier = s }
func (u *User) GetAttemptCount() int           { return u.AttemptCount }
func (u *User) PutAttemptCount(n int)          { u.AttemptCount = n }
func (u *User) GetLastAttempt() time.Time      { return u.LastAttempt }
func (u *User) PutLastAttempt(t time.Time)     { u.LastAttempt = t }
func (u *User) GetLocked() time.Time           { return u.Locked }
func (u *User) PutLocked(t time.Time)          { u.Locked = t }
func (u *User) GetRecoverSelector() string     { return u.RecoverSelector }
func (u *User) PutRecoverSelector(s string)    { u.RecoverSelector = s }
func (u *User) GetRecoverVerifier() string     { return u.RecoverVerifier }
func (u *User) PutRecoverVerifier(s string)    { u.RecoverVerifier = s }
func (u *User) GetRecoverExpiry() time.Time    { return u.RecoverExpiry }
func (u *User) PutRecoverExpiry(t time.Time)   { u.RecoverExpiry = t }
func (u *User) GetSecondaryEmails() []string {
	if u.PID == PidPool["u2"] { // the account u2 has one declared secondary address, however it was created
		return []string{PidPool["u2s"]}
	}
	return u.Secondary
}
func (u *User) GetOTPs() string                { return u.OTPs }
func (u *User) PutOTPs(s string)               { u.OTPs = s }
func (u *User) GetRecoveryCodes() string       { return u.RecoveryCodes }
func (u *User) PutRecoveryCodes(s string)      { u.RecoveryCodes = s }
func (u *User) GetTOTPSecretKey() string       { return u.TOTPSecretKey }
func (u *User) PutTOTPSecretKey(s string)      { u.TOTPSecretKey = s }
func (u *User) GetSMSPhoneNumber() string      { return u.SMSPhone }
func (u *User) PutSMSPhoneNumber(s string)     { u.SMSPhone = s }
func (u *User) IsOAuth2User() bool             { return len(u.OAuth2Provider) != 0 }
func (u *User) GetOAuth2UID() string           { return u.OAuth2UID }
func (u *User) PutOAuth2UID(s string)          { u.OAuth2UID = s }
func (u *User) GetOAuth2Provider() string      { return u.OAuth2Provider }
func (u *User) PutOAuth2Provider(s string)     { u.OAuth2Provider = s }
func (u *User) GetOAuth2AccessToken() string   { return u.OAuth2Token }
func (u *User) PutOAuth2AccessToken(s string)  { u.OAuth2Token = s }
func (u *User) GetOAuth2RefreshToken() string  { return u.OAuth2Refresh }
func (u *User) PutOAuth2RefreshToken(s string) { u.OAuth2Refresh = s }
func (u *User) GetOAuth2Expiry() time.Time     { return u.OAuth2Expiry }
func (u *User) PutOAuth2Expiry(t time.Time)    { u.OAuth2Expiry = t }
func (u *User) GetArbitrary() map[string]string {
	return u.Arbitrary
}

// PutArbitrary keeps every key it is handed, verbatim, like a consumer that
// stores the registration extras in a JSON column (the repository's own
// mocks.User does the same): whatever the library passes here reaches
// storage, so a field that should not be passed is observable. "email" also
// sets Email.
func (u *User) PutArbitrary(m map[string]string) {
	if u.Arbitrary == nil {
		u.Arbitrary = map[string]string{}
	}
	for k, v := range m {
		if k == "email" {
			u.Email = v
			continue
		}
		u.Arbitrary[k] = v
	}
}

// userOneTime adds the TOTP last-code methods (totp2fa.UserOneTime); the
// plain *User deliberately lacks them so replay protection is switchable.
type userOneTime struct{ *User }

func (u *userOneTime) GetTOTPLastCode() string  { return u.TOTPLastCode }
func (u *userOneTime) PutTOTPLastCode(s string) { u.TOTPLastCode = s }

// Call records one backend call for the C18/C20 cut points.
type Call struct {
	Kind string `json:"kind"`
	Key  string `json:"key"`
}

// FaultPlan fails the N-th backend call (1-based) of the current request.
type FaultPlan struct {
	At   int
	Err  error
	seen int
	Hit  bool
}

// ErrIO is the generic injected backend failure.
var ErrIO = errors.New("verif: injected backend failure")

// Gate is called before every backend call (scheduler gate for C20).
type Gate func(ctx context.Context, c Call)

// Store is the database-like server store: every Load returns a deep copy
// and every Save/Create stores a deep copy.
type Store struct {
	mu       sync.Mutex
	users    map[string]*User
	rm       map[string][]string // pid -> token hashes
	oneTime  bool
	Calls    []Call
	fault    *FaultPlan
	gate     Gate
	logCalls bool
	onAddRm  func(hash string)
	// Outage names backend call kinds (e.g. "SendMail RenderMail") that fail for as long as it is set.
	Outage string
	// FoldPid makes Load resolve PIDs case-insensitively (a normalising
	// database collation); stored records keep their own spelling.
	FoldPid bool
}

func NewStore(oneTime bool) *Store {
	return &Store{users: map[string]*User{}, rm: map[string][]string{}, oneTime: oneTime}
}

type ctxKey string

const ctxClient ctxKey = "verif-client"

// ClientOf names the client (browser) a backend call is made for ("" when the
// call carries no request context, e.g. the hasher).
func ClientOf(ctx context.Context) string {
	if v, ok := ctx.Value(ctxClient).(string); ok {
		return v
	}
	return ""
}

func (s *Store) call(ctx context.Context, kind, key string) error {
	c := Call{kind, key}
	if g := s.gate; g != nil {
		g(ctx, c)
	}
	s.mu.Lock()
	defer s.mu.Unlock()
	if s.logCalls {
		s.Calls = append(s.Calls, c)
	}
	if s.Outage != "" && strings.Contains(s.Outage, kind) {
		return ErrIO // the whole backend of this kind is down (C16 under an outage)
	}
	if f := s.fault; f != nil {
		f.seen++
		if f.seen == f.At {
			f.Hit = true
			return f.Err
		}
	}
	return nil
}

// Backend exposes the same fault/call accounting to the non-store backends
// (hasher, renderer, SMS sender, mailer).
func (s *Store) Backend(ctx context.Context, kind, key string) error { return s.call(ctx, kind, key) }

func (s *Store) wrap(u *User) authboss.User {
	if s.oneTime {
		return &userOneTime{u}
	}
	return u
}

func unwrap(u authboss.User) *User {
	switch x := u.(type) {
	case *User:
		return x
	case *userOneTime:
		return x.User
	}
	return nil
}

func (s *Store) Load(ctx context.Context, key string) (authboss.User, error) {
	if err := s.call(ctx, "Load", key); err != nil {
		return nil, err
	}
	s.mu.Lock()
	defer s.mu.Unlock()
	// The ServerStorer documentation asks Load to recognise OAuth2 PIDs with
	// ParseOAuth2PID and look the user up by (provider, uid).
	if strings.HasPrefix(key, "oauth2;;") {
		prov, uid, err := authboss.ParseOAuth2PID(key)
		if err != nil {
			return nil, err
		}
		key = authboss.MakeOAuth2PID(prov, uid)
	}
	u, ok := s.users[key]
	if !ok && s.FoldPid {
		for _, pid := range s.sortedPIDs() {
			if strings.EqualFold(pid, key) {
				u, ok = s.users[pid], true
				break
			}
		}
	}
	if !ok {
		return nil, authboss.ErrUserNotFound
	}
	return s.wrap(u.clone()), nil
}

func (s *Store) Save(ctx context.Context, user authboss.User) error {
	u := unwrap(user)
	if err := s.call(ctx, "Save", u.PID); err != nil {
		return err
	}
	s.mu.Lock()
	defer s.mu.Unlock()
	if _, ok := s.users[u.PID]; !ok {
		return authboss.ErrUserNotFound
	}
	s.users[u.PID] = u.clone()
	return nil
}

func (s *Store) New(ctx context.Context) authboss.User { return s.wrap(&User{}) }

func (s *Store) Create(ctx context.Context, user authboss.User) error {
	u := unwrap(user)
	if err := s.call(ctx, "Create", u.PID); err != nil {
		return err
	}
	s.mu.Lock()
	defer s.mu.Unlock()
	if _, ok := s.users[u.PID]; ok {
		return authboss.ErrUserFound
	}
	s.users[u.PID] = u.clone()
	return nil
}

func (s *Store) LoadByConfirmSelector(ctx context.Context, sel string) (authboss.ConfirmableUser, error) {
	if err := s.call(ctx, "LoadByConfirmSelector", ""); err != nil {
		return nil, err
	}
	s.mu.Lock()
	defer s.mu.Unlock()
	for _, pid := range s.sortedPIDs() {
		u := s.users[pid]
		if u.ConfirmSelector == sel {
			return s.wrap(u.clone()).(authboss.ConfirmableUser), nil
		}
	}
	return nil, authboss.ErrUserNotFound
}

func (s *Store) LoadByRecoverSelector(ctx context.Context, sel string) (authboss.RecoverableUser, error) {
	if err := s.call(ctx, "LoadByRecoverSelector", ""); err != nil {
		return nil, err
	}
	s.mu.Lock()
	defer s.mu.Unlock()
	for _, pid := range s.sortedPIDs() {
		u := s.users[pid]
		if u.RecoverSelector == sel {
			return s.wrap(u.clone()).(authboss.RecoverableUser), nil
		}
	}
	return nil, authboss.ErrUserNotFound
}

func (s *Store) sortedPIDs() []string {
	out := make([]string, 0, len(s.users))
	for k := range s.users {
		out = append(out, k)
	}
	sort.Strings(out)
	return out
}

func (s *Store) AddRememberToken(ctx context.Context, pid, token string) error {
	if err := s.call(ctx, "AddRememberToken", pid); err != nil {
		return err
	}
	s.mu.Lock()
	defer s.mu.Unlock()
	s.rm[pid] = append(s.rm[pid], token)
	if s.onAddRm != nil {
		s.onAddRm(token)
	}
	return nil
}

func (s *Store) DelRememberTokens(ctx context.Context, pid string) error {
	if err := s.call(ctx, "DelRememberTokens", pid); err != nil {
		return err
	}
	s.mu.Lock()
	defer s.mu.Unlock()
	delete(s.rm, pid)
	return nil
}

func (s *Store) UseRememberToken(ctx context.Context, pid, token string) error {
	if err := s.call(ctx, "UseRememberToken", pid); err != nil {
		return err
	}
	s.mu.Lock()
	defer s.mu.Unlock()
	toks := s.rm[pid]
	for i, t := range toks {
		if t == token {
			s.rm[pid] = append(append([]string(nil), toks[:i]...), toks[i+1:]...)
			if len(s.rm[pid]) == 0 {
				delete(s.rm, pid)
			}
			return nil
		}
	}
	return authboss.ErrTokenNotFound
}

// NewFromOAuth2 returns the existing account for (provider, uid) or a fresh
// one. OAuth2 accounts are created confirmed: the library has no e-mail
// confirmation flow for them (see DESIGN.md C03 domain decision).
func (s *Store) NewFromOAuth2(ctx context.Context, provider string, details map[string]string) (authboss.OAuth2User, error) {
	uid := details["uid"]
	if err := s.call(ctx, "NewFromOAuth2", uid); err != nil {
		return nil, err
	}
	s.mu.Lock()
	defer s.mu.Unlock()
	pid := authboss.MakeOAuth2PID(provider, uid)
	if u, ok := s.users[pid]; ok {
		return s.wrap(u.clone()).(authboss.OAuth2User), nil
	}
	u := &User{PID: pid, Email: details["email"], OAuth2UID: uid, OAuth2Provider: provider, Confirmed: true}
	return s.wrap(u).(authboss.OAuth2User), nil
}

func (s *Store) SaveOAuth2(ctx context.Context, user authboss.OAuth2User) error {
	u := unwrap(user)
	if err := s.call(ctx, "SaveOAuth2", u.PID); err != nil {
		return err
	}
	s.mu.Lock()
	defer s.mu.Unlock()
	// the PID is derived again from what the library put on the user, so a
	// provider/uid mix-up inside the library is visible as a differently
	// keyed record.
	u.PID = authboss.MakeOAuth2PID(u.OAuth2Provider, u.OAuth2UID)
	s.users[u.PID] = u.clone()
	return nil
}

// ---- harness-side (not library-facing) access -----------------------------

// Peek returns a copy of the stored record without accounting.
func (s *Store) Peek(pid string) *User {
	s.mu.Lock()
	defer s.mu.Unlock()
	if u, ok := s.users[pid]; ok {
		return u.clone()
	}
	return nil
}

// Poke replaces / creates a stored record without accounting.
func (s *Store) Poke(u *User) {
	s.mu.Lock()
	defer s.mu.Unlock()
	s.users[u.PID] = u.clone()
}

func (s *Store) PIDs() []string {
	s.mu.Lock()
	defer s.mu.Unlock()
	return s.sortedPIDs()
}

// RememberTokens returns a copy of the remember-token table.
func (s *Store) RememberTokens() map[string][]string {
	s.mu.Lock()
	defer s.mu.Unlock()
	out := map[string][]string{}
	for k, v := range s.rm {
		out[k] = append([]string(nil), v...)
	}
	return out
}

// ShiftTime moves every stored instant back by d (time passes).
func (s *Store) ShiftTime(d time.Duration) {
	s.mu.Lock()
	defer s.mu.Unlock()
	for _, u := range s.users {
		if !u.LastAttempt.IsZero() {
			u.LastAttempt = u.LastAttempt.Add(-d)
		}
		if !u.Locked.IsZero() {
			u.Locked = u.Locked.Add(-d)
		}
		if !u.RecoverExpiry.IsZero() {
			u.RecoverExpiry = u.RecoverExpiry.Add(-d)
		}
	}
}

// BeginRequest arms accounting for one request.
func (s *Store) BeginRequest(f *FaultPlan, logCalls bool) {
	s.mu.Lock()
	defer s.mu.Unlock()
	s.Calls = nil
	s.fault = f
	s.logCalls = logCalls
}

func (s *Store) EndRequest() []Call {
	s.mu.Lock()
	defer s.mu.Unlock()
	c := s.Calls
	s.Calls = nil
	s.fault = nil
	s.logCalls = false
	return c
}

func (s *Store) SetGate(g Gate) { s.gate = g }

// Snapshot / Restore support forked replay (C16).
type StoreSnap struct {
	users map[string]*User
	rm    map[string][]string
}

func (s *Store) Snapshot() StoreSnap {
	s.mu.Lock()
	defer s.mu.Unlock()
	sn := StoreSnap{users: map[string]*User{}, rm: map[string][]string{}}
	for k, v := range s.users {
		sn.users[k] = v.clone()
	}
	for k, v := range s.rm {
		sn.rm[k] = append([]string(nil), v...)
	}
	return sn
}

func (s *Store) Restore(sn StoreSnap) {
	s.mu.Lock()
	defer s.mu.Unlock()
	s.users = map[string]*User{}
	s.rm = map[string][]string{}
	for k, v := range sn.users {
		s.users[k] = v.clone()
	}
	for k, v := range sn.rm {
		s.rm[k] = append([]string(nil), v...)
	}
}
