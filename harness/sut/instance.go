package sut

import (
	"bytes"
	"context"
	"encoding/json"
	"fmt"
	"io"
	"net/http"
	"net/http/httptest"
	"net/url"
	"sort"
	"strings"
	"sync"
	"time"

	"github.com/volatiletech/authboss/v3"
	_ "github.com/volatiletech/authboss/v3/auth"
	"github.com/volatiletech/authboss/v3/confirm"
	"github.com/volatiletech/authboss/v3/defaults"
	"github.com/volatiletech/authboss/v3/expire"
	"github.com/volatiletech/authboss/v3/lock"
	_ "github.com/volatiletech/authboss/v3/logout"
	aboauth "github.com/volatiletech/authboss/v3/oauth2"
	_ "github.com/volatiletech/authboss/v3/otp"
	"github.com/volatiletech/authboss/v3/otp/twofactor"
	"github.com/volatiletech/authboss/v3/otp/twofactor/sms2fa"
	"github.com/volatiletech/authboss/v3/otp/twofactor/totp2fa"
	_ "github.com/volatiletech/authboss/v3/recover"
	_ "github.com/volatiletech/authboss/v3/register"
	"github.com/volatiletech/authboss/v3/remember"
	"golang.org/x/crypto/bcrypt"
	"golang.org/x/oauth2"
)

// Unit is the real duration of one abstract tick. A spec threshold of k ticks
// is configured as (k+1/2)*Unit so that whole-tick gaps never sit on a
// comparison boundary (DESIGN.md 2.5).
// One hour per tick keeps every comparison half an hour away from its
// threshold however long a scenario takes to run; the SMS resend limit (a
// fixed 10 s) is re-based from the abstract clock before every request.
const Unit = time.Hour

// G is the number of time units per tick (the spec's G); the abstract clock runs in units.
const G = 10

// Thr is the spec's Thr: a duration of k ticks, in units; on the wall clock it is half a unit more,
// so that events, which happen at whole units, never meet a threshold exactly.
func Thr(k int) int { return G*k + G/2 }

func ticks(k int) time.Duration { return time.Duration(Thr(k))*(Unit/G) + Unit/(2*G) }

// Config is the abstract configuration of one instance (mirrors the spec's
// cfg record).
type Config struct {
	Modules      []string `json:"modules"` // load order
	LockAfter    int      `json:"lockAfter"`
	LockWindow   int      `json:"lockWindow"`
	LockDuration int      `json:"lockDuration"`
	ExpireAfter  int      `json:"expireAfter"`
	RecoverTTL   int      `json:"recoverTTL"`
	RecoverLogin bool     `json:"recoverLogin"`
	EmailAuth    bool     `json:"emailAuth"`
	TotpOneTime  bool     `json:"totpOneTime"`
	Whitelist    []string `json:"whitelist"`
	LogoutMethod string   `json:"logoutMethod"`
	MWReqs       int      `json:"mwReqs"`
	MWFail       string   `json:"mwFail"` // "404" | "401" | "redirect"
	ErrWrites    bool     `json:"errWrites"`
	JSON         bool     `json:"json"`
	MailGo       bool     `json:"mailGo"`
	FoldPid      bool     `json:"foldPid"`
	// Conc: the instance serves concurrent requests (C20): per-request harness bookkeeping that is
	// not goroutine-safe is switched off and the shipped SMTP and log mailers are in the mail path.
	Conc bool `json:"conc,omitempty"`
	// SelfAuth: the application does what remember.Middleware does with its own middleware, calling the
	// exported remember.Authenticate itself (same semantics; the specification does not read this field)
	SelfAuth bool `json:"selfAuth,omitempty"`
	// RegNoWhitelist: the application configured no extra registration fields at all
	// (defaults.HTTPBodyReader.Whitelist["register"] removed).
	RegNoWhitelist bool `json:"regNoWhitelist"`
	// AppHandles2FA: the application subscribes to After(EventTwoFactorAdded / Removed) and answers
	// the request itself (a custom redirect), i.e. its handler returns handled = true.
	AppHandles2FA bool `json:"appHandles2FA"`
}

func (c Config) Has(m string) bool {
	for _, x := range c.Modules {
		if x == m {
			return true
		}
	}
	return false
}

// ---- client state ----------------------------------------------------------

type mapState map[string]string

func (m mapState) Get(k string) (string, bool) { v, ok := m[k]; return v, ok }

// WriteRec is one WriteState call as received by a store.
type WriteRec struct {
	Store  string                      `json:"store"`
	Events []authboss.ClientStateEvent `json:"events"`
}

// ClientStore is a server-side client-state store keyed by a browser id
// carried in the X-Browser request header. WriteState honours the whitelist
// carried in a delete-all event.
type ClientStore struct {
	name   string
	mu     sync.Mutex
	data   map[string]map[string]string
	Writes []WriteRec
}

func newClientStore(name string) *ClientStore {
	return &ClientStore{name: name, data: map[string]map[string]string{}}
}

type browserKey struct{}

func (c *ClientStore) ReadState(r *http.Request) (authboss.ClientState, error) {
	b := r.Header.Get("X-Browser")
	c.mu.Lock()
	defer c.mu.Unlock()
	cp := mapState{}
	for k, v := range c.data[b] {
		cp[k] = v
	}
	cp["\x00browser"] = b
	return cp, nil
}

func (c *ClientStore) WriteState(w http.ResponseWriter, st authboss.ClientState, evs []authboss.ClientStateEvent) error {
	var b string
	if st != nil {
		b, _ = st.Get("\x00browser")
	}
	c.mu.Lock()
	defer c.mu.Unlock()
	c.Writes = append(c.Writes, WriteRec{c.name, append([]authboss.ClientStateEvent(nil), evs...)})
	m := c.data[b]
	if m == nil {
		m = map[string]string{}
		c.data[b] = m
	}
	for _, ev := range evs {
		switch ev.Kind {
		case authboss.ClientStateEventPut:
			m[ev.Key] = ev.Value
		case authboss.ClientStateEventDel:
			delete(m, ev.Key)
		case authboss.ClientStateEventDelAll:
			keep := map[string]bool{}
			if len(ev.Key) != 0 {
				for _, k := range strings.Split(ev.Key, ",") {
					keep[k] = true
				}
			}
			for k := range m {
				if !keep[k] {
					delete(m, k)
				}
			}
		}
	}
	return nil
}

func (c *ClientStore) Get(b string) map[string]string {
	c.mu.Lock()
	defer c.mu.Unlock()
	out := map[string]string{}
	for k, v := range c.data[b] {
		out[k] = v
	}
	return out
}

func (c *ClientStore) Set(b, k, v string) {
	c.mu.Lock()
	defer c.mu.Unlock()
	if c.data[b] == nil {
		c.data[b] = map[string]string{}
	}
	c.data[b][k] = v
}

func (c *ClientStore) Del(b, k string) {
	c.mu.Lock()
	defer c.mu.Unlock()
	delete(c.data[b], k)
}

func (c *ClientStore) Clear(b string) {
	c.mu.Lock()
	defer c.mu.Unlock()
	delete(c.data, b)
}

func (c *ClientStore) snapshot() map[string]map[string]string {
	c.mu.Lock()
	defer c.mu.Unlock()
	out := map[string]map[string]string{}
	for b, m := range c.data {
		out[b] = map[string]string{}
		for k, v := range m {
			out[b][k] = v
		}
	}
	return out
}

func (c *ClientStore) restore(s map[string]map[string]string) {
	c.mu.Lock()
	defer c.mu.Unlock()
	c.data = map[string]map[string]string{}
	for b, m := range s {
		c.data[b] = map[string]string{}
		for k, v := range m {
			c.data[b][k] = v
		}
	}
}

func (c *ClientStore) takeWrites() []WriteRec {
	c.mu.Lock()
	defer c.mu.Unlock()
	w := c.Writes
	c.Writes = nil
	return w
}

// HeaderStore is a client-side (cookie-like) client-state store used by the
// concurrent instances (C20): the whole state travels in a request header and
// comes back in a response header. ReadState returns nil when the client sent
// no state (the interface allows that), and WriteState builds the new state
// from the state it is handed plus the events.
type HeaderStore struct{ Name string }

func (h HeaderStore) ReadState(r *http.Request) (authboss.ClientState, error) {
	v := r.Header.Get("X-State-" + h.Name)
	if v == "" {
		return nil, nil
	}
	m := mapState{}
	if err := json.Unmarshal([]byte(v), &m); err != nil {
		return nil, err
	}
	return m, nil
}

func (h HeaderStore) WriteState(w http.ResponseWriter, st authboss.ClientState, evs []authboss.ClientStateEvent) error {
	m := map[string]string{}
	if ms, ok := st.(mapState); ok {
		for k, v := range ms {
			m[k] = v
		}
	}
	for _, ev := range evs {
		switch ev.Kind {
		case authboss.ClientStateEventPut:
			m[ev.Key] = ev.Value
		case authboss.ClientStateEventDel:
			delete(m, ev.Key)
		case authboss.ClientStateEventDelAll:
			keep := map[string]bool{}
			for _, k := range strings.Split(ev.Key, ",") {
				keep[k] = true
			}
			for k := range m {
				if !keep[k] {
					delete(m, k)
				}
			}
		}
	}
	b, _ := json.Marshal(m)
	w.Header().Set("X-Set-State-"+h.Name, string(b))
	return nil
}

// Jar is one concurrent client's state for HeaderStore instances.
type Jar struct{ Session, Cookie map[string]string }

// ---- outboxes ---------------------------------------------------------------

type Mail struct {
	To   []string `json:"to"`
	Kind string   `json:"kind"` // confirm | recover | tfaverify | unknown
	Tok  string   `json:"tok"`
	Body string   `json:"-"`
}

type Mailer struct {
	mu    sync.Mutex
	Box   []Mail
	Lost  []Mail // handed to the mailer, delivery failed (injected)
	store *Store
	Then  []authboss.Mailer // further mailers every message is handed to (errors ignored)
}

func (m *Mailer) Send(ctx context.Context, e authboss.Email) error {
	ml := parseMail(e)
	if err := m.store.Backend(ctx, "SendMail", strings.Join(e.To, ",")); err != nil {
		// not delivered; what the library handed over is kept so that the scanner (C17) knows the secret
		m.mu.Lock()
		m.Lost = append(m.Lost, ml)
		m.mu.Unlock()
		return err
	}
	m.mu.Lock()
	m.Box = append(m.Box, ml)
	m.mu.Unlock()
	for _, t := range m.Then {
		_ = t.Send(ctx, e)
	}
	return nil
}

func parseMail(e authboss.Email) Mail {
	body := e.TextBody + "\n" + e.HTMLBody
	ml := Mail{To: append([]string(nil), e.To...), Kind: "unknown", Body: body}
	// the JSON mail renderer emits {"url":"..."} / {"recover_url":"..."}
	for _, part := range []string{e.TextBody, e.HTMLBody} {
		var d map[string]interface{}
		if json.Unmarshal([]byte(part), &d) != nil {
			continue
		}
		for _, k := range []string{"url", "recover_url"} {
			if s, ok := d[k].(string); ok {
				if u, err := url.Parse(s); err == nil {
					q := u.Query()
					switch {
					case strings.HasSuffix(u.Path, "/confirm"):
						ml.Kind, ml.Tok = "confirm", q.Get("cnf")
					case strings.HasSuffix(u.Path, "/recover/end"):
						ml.Kind, ml.Tok = "recover", q.Get("token")
					case strings.HasSuffix(u.Path, "/email/verify/end"):
						ml.Kind, ml.Tok = "tfaverify", q.Get("token")
					}
				}
			}
		}
	}
	return ml
}

// TakeFor removes and returns the captured mails addressed to `to`.
func (m *Mailer) TakeFor(to string) []Mail {
	m.mu.Lock()
	defer m.mu.Unlock()
	var mine, rest []Mail
	for _, x := range m.Box {
		hit := false
		for _, t := range x.To {
			if t == to {
				hit = true
			}
		}
		if hit {
			mine = append(mine, x)
		} else {
			rest = append(rest, x)
		}
	}
	m.Box = rest
	return mine
}

func (m *Mailer) take() []Mail {
	m.mu.Lock()
	defer m.mu.Unlock()
	b := m.Box
	m.Box = nil
	return b
}

type SMS struct {
	Number string `json:"number"`
	Code   string `json:"code"`
}

type SMSSender struct {
	mu    sync.Mutex
	Box   []SMS
	store *Store
}

func (s *SMSSender) Send(ctx context.Context, number, text string) error {
	if err := s.store.Backend(ctx, "SendSMS", number); err != nil {
		return err
	}
	s.mu.Lock()
	s.Box = append(s.Box, SMS{number, text})
	s.mu.Unlock()
	return nil
}

func (s *SMSSender) take() []SMS {
	s.mu.Lock()
	defer s.mu.Unlock()
	b := s.Box
	s.Box = nil
	return b
}

// LogBuf is the writer behind the shipped defaults.Logger.
type LogBuf struct {
	mu  sync.Mutex
	buf bytes.Buffer
}

func (l *LogBuf) Write(p []byte) (int, error) {
	l.mu.Lock()
	defer l.mu.Unlock()
	return l.buf.Write(p)
}

func (l *LogBuf) take() string {
	l.mu.Lock()
	defer l.mu.Unlock()
	s := l.buf.String()
	l.buf.Reset()
	return s
}

// ---- wrappers with fault accounting ------------------------------------------

type hasher struct {
	inner authboss.Hasher
	store *Store
}

func (h hasher) CompareHashAndPassword(hash, pw string) error {
	return h.inner.CompareHashAndPassword(hash, pw)
}

func (h hasher) GenerateHash(pw string) (string, error) {
	if err := h.store.Backend(context.Background(), "Hash", ""); err != nil {
		return "", err
	}
	return h.inner.GenerateHash(pw)
}

type renderer struct {
	inner defaults.JSONRenderer
	store *Store
	mail  bool
	last  *string
}

func (r renderer) Load(names ...string) error { return nil }

func (r renderer) Render(ctx context.Context, page string, data authboss.HTMLData) ([]byte, string, error) {
	kind := "Render"
	if r.mail {
		kind = "RenderMail"
	}
	if err := r.store.Backend(ctx, kind, page); err != nil {
		return nil, "", err
	}
	if r.last != nil {
		*r.last = page
	}
	return r.inner.Render(ctx, page, data)
}

// otpReader adds the otp module's login page to the shipped body reader, which
// does not know it ("otplogin" carries the same fields as "login": the pid and,
// in the password field, the one-time password). An application using the otp
// module with defaults.HTTPBodyReader has to do exactly this.
type otpReader struct{ inner authboss.BodyReader }

func (o otpReader) Read(page string, r *http.Request) (authboss.Validator, error) {
	if page == "otplogin" {
		page = "login"
	}
	return o.inner.Read(page, r)
}

// errHandler500 is the alternative error handler that writes a 500.
type errHandler500 struct{ log authboss.Logger }

func (e errHandler500) Wrap(h func(w http.ResponseWriter, r *http.Request) error) http.Handler {
	return http.HandlerFunc(func(w http.ResponseWriter, r *http.Request) {
		if err := h(w, r); err != nil {
			e.log.Error(fmt.Sprintf("request error: %+v", err))
			w.WriteHeader(http.StatusInternalServerError)
		}
	})
}

// ---- fake OAuth2 provider -----------------------------------------------------

// oauthRT answers the token exchange in-process. The "code" names the outcome:
// "uid:<uid>" -> token carrying that uid; anything else -> exchange failure.
type oauthRT struct{}

func (oauthRT) RoundTrip(r *http.Request) (*http.Response, error) {
	body, _ := io.ReadAll(r.Body)
	vals, _ := url.ParseQuery(string(body))
	code := vals.Get("code")
	rec := httptest.NewRecorder()
	if strings.HasPrefix(code, "uid:") {
		rec.Header().Set("Content-Type", "application/json")
		rec.WriteHeader(200)
		json.NewEncoder(rec).Encode(map[string]interface{}{
			"access_token": "at-" + code, "token_type": "bearer", "expires_in": 3600,
		})
	} else {
		rec.WriteHeader(400)
		rec.WriteString(`{"error":"invalid_grant"}`)
	}
	return rec.Result(), nil
}

// ---- instance -----------------------------------------------------------------

type ProbeResult struct {
	Ran      bool              `json:"ran"`
	User     string            `json:"user"`
	UserID   string            `json:"userID"`
	SeenKeys map[string]string `json:"seenKeys"`
}

type Instance struct {
	Cfg     Config
	AB      *authboss.Authboss
	Store   *Store
	Sess    *ClientStore
	Cook    *ClientStore
	Mail    *Mailer
	SMSOut  *SMSSender
	Log     *LogBuf
	Handler http.Handler
	LockMod *lock.Lock
	ConfMod *confirm.Confirm

	lastPage string
	probeMu  sync.Mutex
	probe    map[*http.Request]*ProbeResult
}

// AllSessionKeys are the keys the harness knows (DESIGN.md appendix B).
var AllSessionKeys = []string{
	authboss.SessionKey, authboss.SessionHalfAuthKey, authboss.SessionLastAction,
	authboss.Session2FA, authboss.Session2FAAuthToken, authboss.Session2FAAuthed,
	authboss.SessionOAuth2State, authboss.SessionOAuth2Params,
	totp2fa.SessionTOTPSecret, totp2fa.SessionTOTPPendingPID,
	sms2fa.SessionSMSNumber, sms2fa.SessionSMSSecret, sms2fa.SessionSMSLast, sms2fa.SessionSMSPendingPID,
	"sms_secret_number",
	authboss.FlashSuccessKey, authboss.FlashErrorKey, AppKeys["app1"], AppKeys["app2"],
}

// AppKeys are the concrete names of the application's own session keys (the
// whitelist candidates). They deliberately embed names of the library's keys.
var AppKeys = map[string]string{"app1": "visitor_uuid", "app2": "hide_twofactor_hint"}

// Providers configured on every instance that loads oauth2.
var Providers = []string{"pa", "pb"}

func New(cfg Config) (*Instance, error) {
	in := &Instance{Cfg: cfg, probe: map[*http.Request]*ProbeResult{}}
	in.Store = NewStore(cfg.TotpOneTime)
	in.Store.FoldPid = cfg.FoldPid
	in.Sess = newClientStore("session")
	in.Cook = newClientStore("cookie")
	in.Mail = &Mailer{store: in.Store}
	in.SMSOut = &SMSSender{store: in.Store}
	in.Log = &LogBuf{}

	ab := authboss.New()
	in.AB = ab
	ab.Config.Core.ViewRenderer = renderer{store: in.Store, last: &in.lastPage}
	if cfg.Conc {
		ab.Config.Core.ViewRenderer = renderer{store: in.Store}
	}
	ab.Config.Core.MailRenderer = renderer{store: in.Store, mail: true}
	defaults.SetCore(&ab.Config, cfg.JSON, false)
	if cfg.RegNoWhitelist {
		if br, ok := ab.Config.Core.BodyReader.(*defaults.HTTPBodyReader); ok {
			delete(br.Whitelist, "register")
		}
	}
	ab.Config.Core.BodyReader = otpReader{ab.Config.Core.BodyReader}
	logger := defaults.NewLogger(in.Log)
	ab.Config.Core.Logger = logger
	if cfg.ErrWrites {
		ab.Config.Core.ErrorHandler = errHandler500{logger}
	} else {
		ab.Config.Core.ErrorHandler = defaults.NewErrorHandler(logger)
	}
	ab.Config.Core.Mailer = in.Mail
	if cfg.Conc {
		// capture (for the clients' scripts) and then hand the message to the shipped mailers
		in.Mail.Then = []authboss.Mailer{defaults.NewSMTPMailer("127.0.0.1:9", nil), defaults.NewLogMailer(in.Log)}
	}
	ab.Config.Core.Hasher = hasher{authboss.NewBCryptHasher(bcrypt.MinCost), in.Store}
	ab.Config.Storage.Server = in.Store
	ab.Config.Storage.SessionState = in.Sess
	ab.Config.Storage.CookieState = in.Cook
	if cfg.Conc {
		ab.Config.Storage.SessionState = HeaderStore{"session"}
		ab.Config.Storage.CookieState = HeaderStore{"cookie"}
	}
	for _, k := range cfg.Whitelist {
		ab.Config.Storage.SessionStateWhitelistKeys = append(ab.Config.Storage.SessionStateWhitelistKeys, AppKeys[k])
	}
	ab.Config.Paths.Mount = "/auth"
	ab.Config.Paths.RootURL = "http://site.test"
	ab.Config.Paths.AuthLoginOK = "/ok/login"
	ab.Config.Paths.ConfirmOK = "/ok/confirm"
	ab.Config.Paths.ConfirmNotOK = "/no/confirm"
	ab.Config.Paths.LockNotOK = "/no/lock"
	ab.Config.Paths.LogoutOK = "/ok/logout"
	ab.Config.Paths.OAuth2LoginOK = "/ok/oauth2"
	ab.Config.Paths.OAuth2LoginNotOK = "/no/oauth2"
	ab.Config.Paths.RecoverOK = "/ok/recover"
	ab.Config.Paths.RegisterOK = "/ok/register"
	ab.Config.Paths.NotAuthorized = "/no/auth"
	ab.Config.Paths.TwoFactorEmailAuthNotOK = "/no/tfaemail"
	ab.Config.Modules.LockAfter = cfg.LockAfter
	ab.Config.Modules.LockWindow = ticks(cfg.LockWindow)
	ab.Config.Modules.LockDuration = ticks(cfg.LockDuration)
	ab.Config.Modules.ExpireAfter = ticks(cfg.ExpireAfter)
	ab.Config.Modules.RecoverTokenDuration = ticks(cfg.RecoverTTL)
	ab.Config.Modules.RecoverLoginAfterRecovery = cfg.RecoverLogin
	ab.Config.Modules.TwoFactorEmailAuthRequired = cfg.EmailAuth
	ab.Config.Modules.MailNoGoroutine = !cfg.MailGo
	ab.Config.Modules.TOTP2FAIssuer = "verif"
	switch cfg.MWFail {
	case "redirect":
		ab.Config.Modules.ResponseOnUnauthed = authboss.RespondRedirect
	case "401":
		ab.Config.Modules.ResponseOnUnauthed = authboss.RespondUnauthorized
	}
	if cfg.LogoutMethod != "" {
		ab.Config.Modules.LogoutMethod = cfg.LogoutMethod
	}
	if cfg.JSON {
		ab.Config.Modules.MailRouteMethod = http.MethodPost
	}
	if cfg.Has("oauth2") {
		ab.Config.Modules.OAuth2Providers = map[string]authboss.OAuth2Provider{}
		for _, p := range Providers {
			p := p
			ab.Config.Modules.OAuth2Providers[p] = authboss.OAuth2Provider{
				OAuth2Config: &oauth2.Config{
					ClientID: "cid-" + p, ClientSecret: "sec",
					Endpoint: oauth2.Endpoint{AuthURL: "http://" + p + ".test/auth", TokenURL: "http://" + p + ".test/token", AuthStyle: oauth2.AuthStyleInParams},
				},
				FindUserDetails: func(ctx context.Context, c oauth2.Config, tok *oauth2.Token) (map[string]string, error) {
					if err := in.Store.Backend(ctx, "FindUserDetails", p); err != nil {
						return nil, err
					}
					uid := strings.TrimPrefix(tok.AccessToken, "at-uid:")
					return map[string]string{"uid": uid, "email": authboss.MakeOAuth2PID(p, uid)}, nil
				},
			}
		}
	}

	var abMods []string
	for _, m := range cfg.Modules {
		switch m {
		case "auth", "otp", "oauth2", "register", "confirm", "recover", "remember", "lock", "logout":
			abMods = append(abMods, m)
		}
	}
	if len(abMods) == 0 {
		abMods = []string{"logout"}
	}
	// 2FA setup registers its hijack handlers on EventAuthHijack; their order
	// relative to each other follows cfg.Modules, as Init order does for the
	// registered modules.
	if err := ab.Init(abMods...); err != nil {
		return nil, err
	}
	for _, m := range cfg.Modules {
		switch m {
		case "totp":
			if err := (&totp2fa.TOTP{Authboss: ab}).Setup(); err != nil {
				return nil, err
			}
		case "sms":
			if err := (&sms2fa.SMS{Authboss: ab, Sender: in.SMSOut}).Setup(); err != nil {
				return nil, err
			}
		case "recovery":
			if err := (&twofactor.Recovery{Authboss: ab}).Setup(); err != nil {
				return nil, err
			}
		case "expire":
			if err := expire.Setup(ab); err != nil {
				return nil, err
			}
		}
	}
	if cfg.AppHandles2FA {
		appHandler := func(w http.ResponseWriter, r *http.Request, handled bool) (bool, error) {
			ro := authboss.RedirectOptions{Code: http.StatusTemporaryRedirect, RedirectPath: "/app/tfa-changed"}
			return true, ab.Config.Core.Redirector.Redirect(w, r, ro)
		}
		ab.Events.After(authboss.EventTwoFactorAdded, appHandler)
		ab.Events.After(authboss.EventTwoFactorRemoved, appHandler)
	}
	in.LockMod = &lock.Lock{Authboss: ab}
	in.ConfMod = &confirm.Confirm{Authboss: ab}

	// routes
	mux := http.NewServeMux()
	mux.Handle("/auth/", http.StripPrefix("/auth", ab.Config.Core.Router))
	var fail authboss.MWRespondOnFailure
	switch cfg.MWFail {
	case "redirect":
		fail = authboss.RespondRedirect
	case "401":
		fail = authboss.RespondUnauthorized
	default:
		fail = authboss.RespondNotFound
	}
	var probe http.Handler = http.HandlerFunc(in.probeHandler)
	if cfg.Has("confirm") {
		probe = confirm.Middleware(ab)(probe)
	}
	if cfg.Has("lock") {
		probe = lock.Middleware(ab)(probe)
	}
	probe = authboss.Middleware2(ab, authboss.MWRequirements(cfg.MWReqs), fail)(probe)
	mux.Handle("/probe", probe)
	mux.Handle("/probe/", probe)
	// protected pages that live under the "not ok" landing pages' paths
	mux.Handle("/no/confirm/zone", probe)
	mux.Handle("/no/lock/zone", probe)
	mux.Handle("/ok/login/zone", probe)
	// lock / confirm middleware used on their own (no Middleware2 in front): they load the user themselves
	var bare http.Handler = http.HandlerFunc(in.probeHandler)
	if cfg.Has("confirm") {
		bare = confirm.Middleware(ab)(bare)
	}
	if cfg.Has("lock") {
		bare = lock.Middleware(ab)(bare)
	}
	mux.Handle("/bare", bare)
	// the same handler behind the mount-pathed variant (as authboss's own routes use it)
	mprobe := authboss.MountedMiddleware2(ab, true, authboss.MWRequirements(cfg.MWReqs), fail)(http.HandlerFunc(in.probeHandler))
	mux.Handle("/mprobe/", mprobe)
	// the deprecated wrappers (still exported, still used by applications): same table, no 401 mode
	if cfg.MWFail != "401" {
		full, tfa := cfg.MWReqs&1 != 0, cfg.MWReqs&2 != 0
		mux.Handle("/dprobe/", authboss.Middleware(ab, cfg.MWFail == "redirect", full, tfa)(http.HandlerFunc(in.probeHandler)))
		mux.Handle("/dmprobe/", authboss.MountedMiddleware(ab, true, cfg.MWFail == "redirect", full, tfa)(http.HandlerFunc(in.probeHandler)))
	}

	var h http.Handler = mux
	if cfg.Has("expire") {
		h = expire.Middleware(ab)(h)
	}
	if cfg.Has("remember") {
		if cfg.SelfAuth {
			next := h
			h = http.HandlerFunc(func(w http.ResponseWriter, r *http.Request) {
				if id, _ := ab.CurrentUserID(r); len(id) == 0 {
					if err := remember.Authenticate(ab, w, &r); err != nil {
						ab.RequestLogger(r).Errorf("application: remember me failed: %+v", err)
					}
				}
				next.ServeHTTP(w, r)
			})
		} else {
			h = remember.Middleware(ab)(h)
		}
	}
	if cfg.Conc {
		// the recommended application stack: ModuleListMiddleware, then the application's own data
		// injector (here: the name of the client the request belongs to) merged into the view data
		inj := h
		h = authboss.ModuleListMiddleware(ab)(http.HandlerFunc(func(w http.ResponseWriter, r *http.Request) {
			authboss.MergeDataInRequest(&r, authboss.HTMLData{"current_client": r.Header.Get("X-Browser")})
			inj.ServeHTTP(w, r)
		}))
	}
	h = ab.LoadClientStateMiddleware(h)
	// outermost: in-process OAuth2 HTTP client in the request context
	inner := h
	cl := &http.Client{Transport: oauthRT{}}
	in.Handler = http.HandlerFunc(func(w http.ResponseWriter, r *http.Request) {
		r = r.WithContext(context.WithValue(r.Context(), oauth2.HTTPClient, cl))
		inner.ServeHTTP(w, r)
	})
	_ = aboauth.FormValueOAuth2State
	return in, nil
}

func (in *Instance) probeHandler(w http.ResponseWriter, r *http.Request) {
	res := &ProbeResult{Ran: true, SeenKeys: map[string]string{}}
	if u, err := in.AB.CurrentUser(r); err == nil && u != nil {
		res.User = u.GetPID()
	}
	if id, _ := in.AB.CurrentUserID(r); id != "" {
		res.UserID = id
	}
	for _, k := range AllSessionKeys {
		if v, ok := authboss.GetSession(r, k); ok {
			res.SeenKeys[k] = v
		}
	}
	in.probeMu.Lock()
	in.probe[rootReq(r)] = res
	in.probeMu.Unlock()
	w.Header().Set("Content-Type", "text/plain")
	w.WriteHeader(200)
	io.WriteString(w, "probe-ok")
}

type rootKey struct{}

func rootReq(r *http.Request) *http.Request {
	if v := r.Context().Value(rootKey{}); v != nil {
		return v.(*http.Request)
	}
	return r
}

// Req is one concrete request.
type Req struct {
	Browser string            `json:"browser"`
	Method  string            `json:"method"`
	Path    string            `json:"path"` // including query
	Form    map[string]string `json:"form,omitempty"`
	RawBody string            `json:"rawBody,omitempty"` // overrides Form when non-empty
	CType   string            `json:"ctype,omitempty"`
	Fault   int               `json:"fault,omitempty"`
	FaultE  string            `json:"faultErr,omitempty"` // io | notfound | tokennotfound
	Wf      bool              `json:"-"`
}

// Resp is what the client (and the harness) observes of one request.
type Resp struct {
	Status    int                    `json:"status"`
	Header    map[string][]string    `json:"header"`
	Body      string                 `json:"body"`
	Location  string                 `json:"location"`
	Panic     string                 `json:"panic,omitempty"`
	Probe     *ProbeResult           `json:"probe,omitempty"`
	Writes    []WriteRec             `json:"writes"`
	Mails     []Mail                 `json:"mails"`
	LostMails []Mail                 `json:"lostMails,omitempty"`
	SMSs      []SMS                  `json:"sms"`
	Log       string                 `json:"-"`
	Calls     []Call                 `json:"calls,omitempty"`
	FaultHit  bool                   `json:"faultHit,omitempty"`
	WroteHead bool                   `json:"wroteHead"`
	Page      string                 `json:"page"`
	JSON      map[string]interface{} `json:"-"`
}

type recWriter struct {
	*httptest.ResponseRecorder
	wrote bool
}

func (r *recWriter) WriteHeader(c int) { r.wrote = true; r.ResponseRecorder.WriteHeader(c) }
func (r *recWriter) Write(b []byte) (int, error) {
	r.wrote = true
	return r.ResponseRecorder.Write(b)
}

// Do serves one request in-process and collects everything observable.
func (in *Instance) Do(rq Req) (resp Resp) {
	var body io.Reader
	ctype := rq.CType
	switch {
	case rq.RawBody != "":
		body = strings.NewReader(rq.RawBody)
	case in.Cfg.JSON && rq.Method != "GET":
		m := rq.Form
		if m == nil {
			m = map[string]string{}
		}
		b, _ := json.Marshal(m)
		body = bytes.NewReader(b)
		if ctype == "" {
			ctype = "application/json"
		}
	case rq.Form != nil && rq.Method != "GET":
		v := url.Values{}
		keys := make([]string, 0, len(rq.Form))
		for k := range rq.Form {
			keys = append(keys, k)
		}
		sort.Strings(keys)
		for _, k := range keys {
			v.Set(k, rq.Form[k])
		}
		body = strings.NewReader(v.Encode())
		if ctype == "" {
			ctype = "application/x-www-form-urlencoded"
		}
	}
	if in.Cfg.JSON && ctype == "" {
		ctype = "application/json"
	}
	r, err := http.NewRequest(rq.Method, "http://site.test"+rq.Path, body)
	if err != nil {
		resp.Panic = "harness: bad request: " + err.Error()
		return
	}
	if r.Body == nil {
		r.Body = http.NoBody // what net/http's server gives a handler
	}
	if ctype != "" {
		r.Header.Set("Content-Type", ctype)
	}
	r.Header.Set("X-Browser", rq.Browser)
	r.RemoteAddr = "10.0.0.1:1234"
	r.RequestURI = rq.Path
	r = r.WithContext(context.WithValue(r.Context(), ctxClient, rq.Browser))
	root := r
	r = r.WithContext(context.WithValue(r.Context(), rootKey{}, root))

	var fp *FaultPlan
	if rq.Fault > 0 {
		e := ErrIO
		switch rq.FaultE {
		case "notfound":
			e = authboss.ErrUserNotFound
		case "tokennotfound":
			e = authboss.ErrTokenNotFound
		}
		fp = &FaultPlan{At: rq.Fault, Err: e}
	}
	in.lastPage = ""
	in.Store.BeginRequest(fp, true)
	w := &recWriter{ResponseRecorder: httptest.NewRecorder()}
	func() {
		defer func() {
			if p := recover(); p != nil {
				resp.Panic = fmt.Sprint(p)
			}
		}()
		in.Handler.ServeHTTP(w, r)
	}()
	if in.Cfg.MailGo {
		// mail goroutines are started by the library; give them time to finish
		// (the mailer is harness-owned; they only touch it and the logger)
		deadline := time.Now().Add(200 * time.Millisecond)
		for time.Now().Before(deadline) {
			time.Sleep(2 * time.Millisecond)
		}
	}
	resp.Calls = in.Store.EndRequest()
	if fp != nil {
		resp.FaultHit = fp.Hit
	}
	resp.Page = in.lastPage
	resp.Status = w.Code
	resp.WroteHead = w.wrote
	wire := w.Result() // headers as they went out with the first WriteHeader
	resp.Header = map[string][]string(wire.Header.Clone())
	resp.Body = w.Body.String()
	resp.Location = wire.Header.Get("Location")
	if strings.HasPrefix(wire.Header.Get("Content-Type"), "application/json") {
		var m map[string]interface{}
		// the first JSON document of the body (event handlers that both answer write two)
		if json.NewDecoder(bytes.NewReader(w.Body.Bytes())).Decode(&m) == nil {
			resp.JSON = m
			if resp.Location == "" {
				if l, ok := m["location"].(string); ok {
					resp.Location = l
				}
			}
		}
	}
	in.probeMu.Lock()
	if p, ok := in.probe[root]; ok {
		resp.Probe = p
		delete(in.probe, root)
	}
	in.probeMu.Unlock()
	resp.Writes = append(in.Sess.takeWrites(), in.Cook.takeWrites()...)
	resp.Mails = in.Mail.take()
	in.Mail.mu.Lock()
	resp.LostMails, in.Mail.Lost = in.Mail.Lost, nil
	in.Mail.mu.Unlock()
	resp.SMSs = in.SMSOut.take()
	resp.Log = in.Log.take()
	return
}

// Serve is the goroutine-safe request path (C20): no per-request harness bookkeeping.
func (in *Instance) Serve(jar *Jar, browser, method, path string, form map[string]string) (status int, location, body string, probe *ProbeResult, panicked string) {
	var rd io.Reader
	if method != "GET" && form != nil {
		v := url.Values{}
		for k, x := range form {
			v.Set(k, x)
		}
		rd = strings.NewReader(v.Encode())
	}
	r, err := http.NewRequest(method, "http://site.test"+path, rd)
	if err != nil {
		return 0, "", "", nil, err.Error()
	}
	if r.Body == nil {
		r.Body = http.NoBody
	}
	if rd != nil {
		r.Header.Set("Content-Type", "application/x-www-form-urlencoded")
	}
	r.Header.Set("X-Browser", browser)
	if len(jar.Session) > 0 {
		b, _ := json.Marshal(jar.Session)
		r.Header.Set("X-State-session", string(b))
	}
	if len(jar.Cookie) > 0 {
		b, _ := json.Marshal(jar.Cookie)
		r.Header.Set("X-State-cookie", string(b))
	}
	r.RemoteAddr = "10.0.0.1:1234"
	root := r
	r = r.WithContext(context.WithValue(context.WithValue(r.Context(), rootKey{}, root), ctxClient, browser))
	w := httptest.NewRecorder()
	func() {
		defer func() {
			if p := recover(); p != nil {
				panicked = fmt.Sprint(p)
			}
		}()
		in.Handler.ServeHTTP(w, r)
	}()
	in.probeMu.Lock()
	if p, ok := in.probe[root]; ok {
		probe = p
		delete(in.probe, root)
	}
	in.probeMu.Unlock()
	res := w.Result()
	if v := res.Header.Get("X-Set-State-session"); v != "" {
		jar.Session = map[string]string{}
		json.Unmarshal([]byte(v), &jar.Session)
	}
	if v := res.Header.Get("X-Set-State-cookie"); v != "" {
		jar.Cookie = map[string]string{}
		json.Unmarshal([]byte(v), &jar.Cookie)
	}
	return w.Code, res.Header.Get("Location"), w.Body.String(), probe, panicked
}

// Tick lets d abstract ticks pass by shifting every stored instant back.
// Tick lets d whole ticks pass, Advance n units.
func (in *Instance) Tick(d int) { in.Advance(G * d) }

func (in *Instance) Advance(units int) { in.AdvanceDur(time.Duration(units) * (Unit / G)) }

// AdvanceDur ages every stored instant by dur (negative: makes them younger).
func (in *Instance) AdvanceDur(dur time.Duration) {
	in.Store.ShiftTime(dur)
	for _, b := range in.Sess.browsers() {
		m := in.Sess.Get(b)
		if v, ok := m[authboss.SessionLastAction]; ok {
			if t, err := time.Parse(time.RFC3339, v); err == nil {
				in.Sess.Set(b, authboss.SessionLastAction, t.Add(-dur).UTC().Format(time.RFC3339))
			}
		}
	}
}

func (c *ClientStore) browsers() []string {
	c.mu.Lock()
	defer c.mu.Unlock()
	out := []string{}
	for b := range c.data {
		out = append(out, b)
	}
	sort.Strings(out)
	return out
}

// Snap is a full snapshot of the mutable world (forked replay, C16).
type Snap struct {
	st   StoreSnap
	sess map[string]map[string]string
	cook map[string]map[string]string
}

func (in *Instance) Snapshot() Snap {
	return Snap{in.Store.Snapshot(), in.Sess.snapshot(), in.Cook.snapshot()}
}

func (in *Instance) Restore(s Snap) {
	in.Store.Restore(s.st)
	in.Sess.restore(s.sess)
	in.Cook.restore(s.cook)
}
