package main

import (
	"encoding/json"
	"flag"
	"fmt"
	"math/rand"
	"net/url"
	"os"
	"strings"
	"sync"
	"time"

	"abverif/sut"

	"golang.org/x/crypto/bcrypt"
)

// C20: several clients run scripts concurrently against ONE instance built from
// the shipped default components (router, body reader, responder, redirector,
// logger, error handler, SMTP + log mailers behind a capturing mailer, mail
// goroutines on). Each client works on its own account and browser and learns
// its own secrets (mail by recipient, pages it is shown). Its transcript is
// compared with the same script run alone on a fresh instance. The binary is
// built with -race; reports are collected by the caller (GORACE log_path).

type cClient struct {
	id      int
	browser string
	pid     string
	pw      string
	rng     *rand.Rand
	tokens  map[string]string // last mailed token by kind
	otps    []string
	out     []string // transcript
	jar     sut.Jar
}

func pathOnly(loc string) string {
	if u, err := url.Parse(loc); err == nil {
		return u.Path
	}
	return loc
}

func (c *cClient) mail(in *sut.Instance, kind string) string {
	deadline := time.Now().Add(2 * time.Second)
	for {
		for _, m := range in.Mail.TakeFor(c.pid) {
			c.tokens[m.Kind] = m.Tok
		}
		if t, ok := c.tokens[kind]; ok {
			delete(c.tokens, kind)
			return t
		}
		if time.Now().After(deadline) {
			return ""
		}
		time.Sleep(time.Millisecond)
	}
}

func (c *cClient) do(in *sut.Instance, method, path string, form map[string]string) (int, string, string) {
	st, loc, body, probe, pan := in.Serve(&c.jar, c.browser, method, path, form)
	rec := fmt.Sprintf("%s %s -> %d %s", method, pathOnly(path), st, pathOnly(loc))
	if probe != nil {
		rec += " ran as " + probe.User
	}
	if pan != "" {
		rec += " PANIC " + pan
	}
	if strings.Contains(body, `"error"`) || strings.Contains(body, `"errors"`) {
		rec += " (error page)"
	}
	var page map[string]interface{}
	if json.Unmarshal([]byte(body), &page) == nil {
		if v, ok := page["current_client"]; ok {
			rec += fmt.Sprintf(" rendered-for=%v", v) // view data the application merged into this request
		}
	}
	c.out = append(c.out, rec)
	return st, loc, body
}

// one scripted step; script choices come from the client's own rng only
func (c *cClient) step(in *sut.Instance, mods map[string]bool) {
	acts := []string{"login", "login", "badlogin", "probe", "probe", "logout"}
	if mods["recover"] {
		acts = append(acts, "recover")
	}
	if mods["otp"] {
		acts = append(acts, "otpadd", "otplogin")
	}
	if mods["register"] {
		acts = append(acts, "reregister")
	}
	if mods["remember"] {
		acts = append(acts, "rmlogin", "dropsession")
	}
	if mods["confirm"] {
		acts = append(acts, "badconfirm")
	}
	// the rejection branches and the plain pages of every loaded flow
	acts = append(acts, "getlogin")
	if mods["recover"] {
		acts = append(acts, "badrecoverend", "recoverunknown", "getrecover", "shortrecoverend", "recoverburst")
	}
	if mods["oauth2"] {
		acts = append(acts, "oauthstart", "oauthcallback", "oauthstart")
	}
	if mods["register"] {
		acts = append(acts, "badregister", "getregister")
	}
	if mods["otp"] {
		acts = append(acts, "getotp", "otpclear")
	}
	switch acts[c.rng.Intn(len(acts))] {
	case "login":
		c.do(in, "POST", "/auth/login", map[string]string{"email": c.pid, "password": c.pw})
	case "rmlogin":
		c.do(in, "POST", "/auth/login", map[string]string{"email": c.pid, "password": c.pw, "rm": "true"})
	case "badlogin":
		c.do(in, "POST", "/auth/login", map[string]string{"email": c.pid, "password": "nope"})
	case "probe":
		c.do(in, "GET", "/probe", nil)
	case "logout":
		c.do(in, "DELETE", "/auth/logout", nil)
	case "dropsession":
		c.jar.Session = nil
		c.out = append(c.out, "drop session")
	case "recover":
		c.do(in, "POST", "/auth/recover", map[string]string{"email": c.pid})
		tok := c.mail(in, "recover")
		if tok == "" {
			c.out = append(c.out, "no recover mail")
			return
		}
		c.pw = c.pw + "x"
		c.do(in, "POST", "/auth/recover/end", map[string]string{"token": tok, "password": c.pw, "confirm_password": c.pw})
	case "otpadd":
		_, _, body := c.do(in, "POST", "/auth/otp/add", nil)
		var m map[string]interface{}
		if json.Unmarshal([]byte(body), &m) == nil {
			if o, ok := m["otp"].(string); ok {
				c.otps = append(c.otps, o)
			}
		}
	case "otplogin":
		o := "none"
		if len(c.otps) > 0 {
			o = c.otps[len(c.otps)-1]
			c.otps = c.otps[:len(c.otps)-1]
		}
		c.do(in, "POST", "/auth/otp/login", map[string]string{"email": c.pid, "password": o})
	case "reregister":
		c.do(in, "POST", "/auth/register", map[string]string{"email": c.pid, "password": c.pw, "confirm_password": c.pw})
	case "badconfirm":
		c.do(in, "GET", "/auth/confirm?cnf=bm9wZQ", nil)
	case "recoverburst":
		// several recoveries back to back: every client's token generator, mailer and storage calls overlap the others'
		for i := 0; i < 4; i++ {
			c.do(in, "POST", "/auth/recover", map[string]string{"email": c.pid})
			tok := c.mail(in, "recover")
			if tok == "" {
				c.out = append(c.out, "no recover mail")
				return
			}
			c.pw = c.pw + "y"
			c.do(in, "POST", "/auth/recover/end", map[string]string{"token": tok, "password": c.pw, "confirm_password": c.pw})
		}
	case "oauthstart":
		c.do(in, "GET", "/auth/oauth2/pa?rm=true", nil)
	case "oauthcallback":
		st := c.jar.Session["oauth2_state"]
		if st == "" {
			st = "none"
		}
		c.do(in, "GET", "/auth/oauth2/callback/pa?state="+url.QueryEscape(st)+"&code="+url.QueryEscape(fmt.Sprintf("uid:c%d", c.id)), nil)
	case "getlogin":
		c.do(in, "GET", "/auth/login", nil)
	case "getrecover":
		c.do(in, "GET", "/auth/recover", nil)
	case "getregister":
		c.do(in, "GET", "/auth/register", nil)
	case "getotp":
		c.do(in, "GET", "/auth/otp/login", nil)
	case "otpclear":
		c.do(in, "POST", "/auth/otp/clear", nil)
		c.otps = nil
	case "badrecoverend":
		c.do(in, "POST", "/auth/recover/end", map[string]string{"token": "bm90IGEgdG9rZW4gYXQgYWxsIGJ1dCBsb25nIGVub3VnaCB0byBiZSBvbmUsIHJlYWxseSwgNjQgYnl0ZXMhIQ==", "password": c.pw + "y", "confirm_password": c.pw + "y"})
	case "shortrecoverend":
		c.do(in, "POST", "/auth/recover/end", map[string]string{"token": "x", "password": "a", "confirm_password": "b"})
	case "recoverunknown":
		c.do(in, "POST", "/auth/recover", map[string]string{"email": "nobody-" + c.pid})
	case "badregister":
		c.do(in, "POST", "/auth/register", map[string]string{"email": "new-" + c.pid, "password": "a", "confirm_password": "b"})
	}
}

func concInstance(mods []string) (*sut.Instance, error) {
	cfg := sut.Config{Modules: mods, LockAfter: 3, LockWindow: 2, LockDuration: 2, ExpireAfter: 2, RecoverTTL: 2, LogoutMethod: "DELETE",
		MWFail: "404", MailGo: true, Conc: true, RecoverLogin: true}
	return sut.New(cfg)
}

func seedConc(in *sut.Instance, n int) []*cClient {
	var cs []*cClient
	for i := 0; i < n; i++ {
		pid := fmt.Sprintf("c%d@x.io", i)
		pw := fmt.Sprintf("Aa1!aaaa%d", i)
		h, _ := bcrypt.GenerateFromPassword([]byte(pw), bcrypt.MinCost)
		in.Store.Poke(&sut.User{PID: pid, Email: pid, Password: string(h), Confirmed: true})
		cs = append(cs, &cClient{id: i, browser: fmt.Sprintf("cb%d", i), pid: pid, pw: pw, tokens: map[string]string{}})
	}
	return cs
}

func finalState(in *sut.Instance, c *cClient) string {
	u := in.Store.Peek(c.pid)
	s := c.jar.Session
	keys := []string{}
	for k := range s {
		if k != "flash_success" && k != "flash_error" && k != "last_action" {
			keys = append(keys, k)
		}
	}
	sortStrings(keys)
	return fmt.Sprintf("attempts=%d otps=%d confirmed=%v recoverTokenSet=%v sessionKeys=%v uid=%s cookie=%v rmTokens=%d pwOK=%v",
		u.AttemptCount, strings.Count(u.OTPs, ",")+btoi(u.OTPs != ""), u.Confirmed, u.RecoverSelector != "", keys, s["uid"],
		c.jar.Cookie["rm"] != "", len(in.Store.RememberTokens()[c.pid]),
		bcrypt.CompareHashAndPassword([]byte(u.Password), []byte(c.pw)) == nil)
}

func btoi(b bool) int {
	if b {
		return 1
	}
	return 0
}

func sortStrings(s []string) {
	for i := range s {
		for j := i + 1; j < len(s); j++ {
			if s[j] < s[i] {
				s[i], s[j] = s[j], s[i]
			}
		}
	}
}

func concCmd(args []string) {
	fs := flag.NewFlagSet("conc", flag.ExitOnError)
	out := fs.String("out", "", "result file")
	rounds := fs.Int("rounds", 20, "rounds")
	clients := fs.Int("clients", 6, "clients per round")
	depth := fs.Int("depth", 25, "steps per client")
	seed := fs.Int64("seed", 1, "seed")
	fs.Parse(args)
	type diff struct {
		Round  int      `json:"round"`
		Client int      `json:"client"`
		Mods   []string `json:"mods"`
		Conc   []string `json:"concurrent"`
		Solo   []string `json:"solo"`
	}
	diffs := []diff{}
	steps := 0
	modSets := [][]string{
		{"auth", "logout", "recover", "lock"},
		{"auth", "logout", "otp", "register", "confirm"},
		{"auth", "logout", "remember", "recover", "otp"},
		{"auth", "logout", "recover", "register", "confirm", "lock", "otp", "remember"},
		{"auth", "logout", "oauth2", "recover", "remember"},
	}
	for r := 0; r < *rounds; r++ {
		mods := modSets[r%len(modSets)]
		mm := map[string]bool{}
		for _, m := range mods {
			mm[m] = true
		}
		in, err := concInstance(mods)
		if err != nil {
			fmt.Fprintln(os.Stderr, err)
			os.Exit(2)
		}
		cs := seedConc(in, *clients)
		var wg sync.WaitGroup
		start := make(chan struct{})
		for _, c := range cs {
			c.rng = rand.New(rand.NewSource(*seed*1009 + int64(r)*97 + int64(c.id)))
			wg.Add(1)
			go func(c *cClient) {
				defer wg.Done()
				<-start
				for i := 0; i < *depth; i++ {
					c.step(in, mm)
				}
			}(c)
		}
		close(start)
		wg.Wait()
		time.Sleep(20 * time.Millisecond) // let the library's mail goroutines drain
		for _, c := range cs {
			c.out = append(c.out, "final "+finalState(in, c))
		}
		// the same scripts, each alone on a fresh instance
		for _, c := range cs {
			in2, _ := concInstance(mods)
			solo := seedConc(in2, *clients)[c.id]
			solo.rng = rand.New(rand.NewSource(*seed*1009 + int64(r)*97 + int64(c.id)))
			for i := 0; i < *depth; i++ {
				solo.step(in2, mm)
			}
			time.Sleep(5 * time.Millisecond)
			solo.out = append(solo.out, "final "+finalState(in2, solo))
			steps += len(solo.out)
			if strings.Join(solo.out, "\n") != strings.Join(c.out, "\n") && len(diffs) < 10 {
				diffs = append(diffs, diff{r, c.id, mods, c.out, solo.out})
			}
		}
	}
	b, _ := json.Marshal(map[string]interface{}{"rounds": *rounds, "clients": *clients, "steps": steps, "diffs": diffs})
	os.WriteFile(*out, b, 0o644)
}

func init() { extra["conc"] = concCmd }
