package main

import (
	"encoding/json"
	"flag"
	"fmt"
	"math/rand"
	"os"
	"regexp"
	"sort"
	"strings"
	"sync"

	"abverif/sut"
)

// C16: forked paired replay. In states reached by random scenarios the world is
// snapshotted, request A is served, everything the client can observe is
// recorded, the snapshot is restored, request B is served, and the two
// observations are compared byte for byte (timestamps canonicalised).

type niPair struct {
	Clause string    `json:"clause"`
	A, B   sut.Event `json:"-"`
}

type niDiff struct {
	Clause string      `json:"clause"`
	Cfg    sut.Config  `json:"cfg"`
	Seed   []sut.SeedUser `json:"seed"`
	Prefix []sut.Event `json:"prefix"`
	A      sut.Event   `json:"a"`
	B      sut.Event   `json:"b"`
	ObsA   string      `json:"obsA"`
	ObsB   string      `json:"obsB"`
}

var stampRe = regexp.MustCompile(`\d{4}-\d{2}-\d{2}T\d{2}:\d{2}:\d{2}Z`)

func observation(r sut.Resp) string {
	var b strings.Builder
	fmt.Fprintf(&b, "status=%d wrote=%v\n", r.Status, r.WroteHead)
	keys := []string{}
	for k := range r.Header {
		keys = append(keys, k)
	}
	sort.Strings(keys)
	for _, k := range keys {
		fmt.Fprintf(&b, "H %s: %s\n", k, strings.Join(r.Header[k], "|"))
	}
	fmt.Fprintf(&b, "body=%s\n", r.Body)
	for _, wr := range r.Writes {
		for _, ev := range wr.Events {
			val := ev.Value
			if wr.Store == "cookie" && ev.Key == "rm" && val != "" {
				val = "<fresh random remember token>" // the middleware in front rotated the cookie; its nonce is random
			}
			fmt.Fprintf(&b, "W %s %d %s=%s\n", wr.Store, ev.Kind, ev.Key, val)
		}
	}
	if r.Panic != "" {
		fmt.Fprintf(&b, "panic=%s\n", r.Panic)
	}
	return stampRe.ReplaceAllString(b.String(), "<ts>")
}

func niPairs(w *sut.World, o sut.Obs, rng *rand.Rand) []niPair {
	c := w.In.Cfg
	b := w.Browsers[rng.Intn(len(w.Browsers))]
	var ps []niPair
	ghost := "g1"
	if o.Db["g1"].Ex {
		ghost = ""
	}
	for _, u := range []string{"u1", "u2", "u3"} {
		d := o.Db[u]
		if !d.Ex || d.Pw < 1 {
			continue
		}
		locked := c.Has("lock") && d.LockLeft >= 0
		confirmed := !c.Has("confirm") || d.Conf
		wrong := sut.Event{Act: "LoginPost", B: b, Pid: u, Pw: -1, Junk: "wrong"}
		if c.Has("auth") && locked && confirmed {
			ps = append(ps, niPair{"a.locked-right-vs-wrong", sut.Event{Act: "LoginPost", B: b, Pid: u, Pw: d.Pw}, wrong})
		}
		wouldLock := false
		if c.Has("lock") {
			n := 1
			if d.WinLeft >= 0 {
				n = d.Att + 1
			}
			wouldLock = n >= c.LockAfter
		}
		if ghost != "" && !locked && !wouldLock {
			if c.Has("auth") {
				ps = append(ps, niPair{"c.unknown-vs-known-wrong", wrong, sut.Event{Act: "LoginPost", B: b, Pid: ghost, Pw: -1, Junk: "wrong"}})
			}
			if c.Has("otp") {
				ps = append(ps, niPair{"c.otp-unknown-vs-known-wrong", sut.Event{Act: "OtpLoginPost", B: b, Pid: u, Tok: -1, Junk: "garbage"},
					sut.Event{Act: "OtpLoginPost", B: b, Pid: ghost, Tok: -1, Junk: "garbage"}})
			}
		}
		if ghost != "" && c.Has("recover") {
			ps = append(ps, niPair{"b.recover-existing-vs-unknown", sut.Event{Act: "RecoverStart", B: b, Pid: u, Valid: true},
				sut.Event{Act: "RecoverStart", B: b, Pid: ghost, Valid: true}})
		}
	}
	// both requests of a pair carry the same optional extras (return target, remember-me)
	if rng.Intn(2) == 0 {
		for i := range ps {
			ps[i].A.Redir, ps[i].B.Redir = "redir", "redir"
		}
	}
	if rng.Intn(3) == 0 {
		for i := range ps {
			ps[i].A.Rm, ps[i].B.Rm = true, true
		}
	}
	return ps
}

func niScenario(family string, depth int, seed int64, jsonMode bool) (pairs int, byClause map[string]int, diffs []niDiff, err error) {
	defer func() {
		if p := recover(); p != nil {
			err = panicErr(p)
		}
	}()
	byClause = map[string]int{}
	rng := rand.New(rand.NewSource(seed))
	sc := familyConfig(family, rng)
	sc.Cfg.JSON = jsonMode
	if !has(sc.Cfg.Modules, "lock") && rng.Intn(2) == 0 {
		sc.Cfg.Modules = append(sc.Cfg.Modules, "lock")
	}
	normCfg(&sc.Cfg)
	w, err := sut.NewWorld(sc.Cfg, sc.Pids, sc.Browsers)
	if err != nil {
		return
	}
	w.ApplySeed(sc.Seed)
	g := &genCtx{rng: rng, w: w, cfg: sc.Cfg, sc: &sc}
	var prefix []sut.Event
	for i := 0; i < depth; i++ {
		e := g.nextEvent(family)
		// steer towards locked accounts
		if sc.Cfg.Has("lock") && rng.Intn(6) == 0 {
			e = sut.Event{Act: "AdminLock", Pid: []string{"u1", "u2"}[rng.Intn(2)]}
		}
		w.Step(e)
		(&e).Norm()
		prefix = append(prefix, e)
		o := w.Project()
		for _, p := range niPairs(w, o, rng) {
			snap := w.Snapshot()
			_, _, ra := w.Step(p.A)
			oa := observation(ra)
			w.Restore(snap)
			_, _, rb := w.Step(p.B)
			ob := observation(rb)
			w.Restore(snap)
			pairs++
			byClause[p.Clause]++
			if oa != ob && len(diffs) < 5 {
				diffs = append(diffs, niDiff{p.Clause, sc.Cfg, sc.Seed, append([]sut.Event(nil), prefix...), p.A, p.B, oa, ob})
			}
			// the same pair while the mail system is down: its failures are not the client's business either
			w.In.Store.Outage = "SendMail RenderMail"
			_, _, ra = w.Step(p.A)
			oa = observation(ra)
			w.Restore(snap)
			_, _, rb = w.Step(p.B)
			ob = observation(rb)
			w.Restore(snap)
			w.In.Store.Outage = ""
			pairs++
			byClause[p.Clause+"@mail-outage"]++
			if oa != ob && len(diffs) < 5 {
				diffs = append(diffs, niDiff{p.Clause + "@mail-outage", sc.Cfg, sc.Seed, append([]sut.Event(nil), prefix...), p.A, p.B, oa, ob})
			}
		}
	}
	return
}

func niCmd(args []string) {
	fs := flag.NewFlagSet("ni", flag.ExitOnError)
	out := fs.String("out", "", "result file")
	n := fs.Int("n", 100, "scenarios")
	depth := fs.Int("depth", 25, "steps")
	seed := fs.Int64("seed", 1, "seed")
	family := fs.String("family", "core", "family")
	workers := fs.Int("workers", 16, "workers")
	replay := fs.String("replay", "", "re-execute one recorded diff (json file)")
	fs.Parse(args)
	if *replay != "" {
		niReplay(*replay)
		return
	}
	var mu sync.Mutex
	total := 0
	by := map[string]int{}
	all := []niDiff{}
	var wg sync.WaitGroup
	sem := make(chan struct{}, *workers)
	var firstErr error
	for i := 0; i < *n; i++ {
		wg.Add(1)
		sem <- struct{}{}
		go func(i int) {
			defer wg.Done()
			defer func() { <-sem }()
			p, bc, d, err := niScenario(*family, *depth, *seed*1000003+int64(i), i%2 == 1)
			mu.Lock()
			total += p
			for k, v := range bc {
				by[k] += v
			}
			all = append(all, d...)
			if err != nil && firstErr == nil {
				firstErr = err
			}
			mu.Unlock()
		}(i)
	}
	wg.Wait()
	if firstErr != nil {
		fmt.Fprintln(os.Stderr, "abdrive:", firstErr)
		os.Exit(2)
	}
	sort.Slice(all, func(i, j int) bool {
		return all[i].Clause+fmt.Sprint(len(all[i].Prefix)) < all[j].Clause+fmt.Sprint(len(all[j].Prefix))
	})
	if len(all) > 20 {
		all = all[:20]
	}
	b, _ := json.Marshal(map[string]interface{}{"pairs": total, "by_clause": by, "diffs": all})
	os.WriteFile(*out, b, 0o644)
}

// niReplay re-executes a recorded diff: exit status 1 if the two observations still differ.
func niReplay(path string) {
	raw, err := os.ReadFile(path)
	if err != nil {
		fmt.Fprintln(os.Stderr, err)
		os.Exit(2)
	}
	var d niDiff
	if err := json.Unmarshal(raw, &d); err != nil {
		fmt.Fprintln(os.Stderr, err)
		os.Exit(2)
	}
	w, err := sut.NewWorld(d.Cfg, sut.AllPids, []string{"b1", "b2"})
	if err != nil {
		fmt.Fprintln(os.Stderr, err)
		os.Exit(2)
	}
	w.ApplySeed(d.Seed)
	for _, e := range d.Prefix {
		w.Step(e)
	}
	snap := w.Snapshot()
	if strings.HasSuffix(d.Clause, "@mail-outage") {
		w.In.Store.Outage = "SendMail RenderMail"
	}
	_, _, ra := w.Step(d.A)
	oa := observation(ra)
	w.Restore(snap)
	_, _, rb := w.Step(d.B)
	ob := observation(rb)
	fmt.Printf("clause %s\n--- A %+v\n%s--- B %+v\n%s", d.Clause, d.A, oa, d.B, ob)
	if oa != ob {
		fmt.Println("OBSERVATIONS DIFFER")
		os.Exit(1)
	}
	fmt.Println("observations identical")
}

func init() { extra["ni"] = niCmd }
