package main

import (
	"bufio"
	"context"
	crand "crypto/rand"
	"encoding/json"
	"io"
	"flag"
	"fmt"
	"net/url"
	"os"
	"strings"

	"abverif/sut"
)

// C20 below the request: TLC (spec/Schedules.tla) enumerates every schedule of
// two in-flight requests at backend-call granularity; each one is replayed here
// against ONE real instance built from the shipped default components. A gate
// in the store holds a request at every backend call, the scheduler lets
// exactly the request named by the schedule run its next segment. What each
// client observed (response, its own account, its own client state) is compared
// with the same request run alone from the same state.

type schedRow struct {
	Na    int      `json:"na"`
	Nb    int      `json:"nb"`
	Sched []string `json:"sched"`
}

type gateCtl struct {
	active   bool
	arrive   chan string
	grant    map[string]chan struct{}
	count    map[string]int
	current  string // the client whose request is running (exactly one at a time under a schedule)
	counting *int   // solo runs: count the scheduling points instead of stopping at them
}

// gateReader makes every read of the process-wide randomness source a scheduling point, AFTER the bytes
// have been delivered: a request that keeps such bytes in anything shared with other requests (a scratch
// buffer, a reused generator state) is then overtaken exactly where it hurts.
type gateReader struct {
	inner io.Reader
	ctl   *gateCtl
}

func (g gateReader) Read(p []byte) (int, error) {
	n, err := g.inner.Read(p)
	c := g.ctl
	switch {
	case c.counting != nil:
		*c.counting++
	case c.active && c.current != "" && c.grant[c.current] != nil:
		id := c.current
		c.count[id]++
		c.arrive <- id
		<-c.grant[id]
	}
	return n, err
}

func (g *gateCtl) gate(ctx context.Context, c sut.Call) {
	id := sut.ClientOf(ctx)
	if !g.active || id == "" || g.grant[id] == nil {
		return
	}
	g.count[id]++
	g.arrive <- id
	<-g.grant[id]
}

type schedStep struct {
	name string
	run  func(c *cClient, in *sut.Instance)
}

func schedSteps(mods map[string]bool) []schedStep {
	st := []schedStep{
		{"login", func(c *cClient, in *sut.Instance) {
			f := map[string]string{"email": c.pid, "password": c.pw}
			if mods["remember"] {
				f["rm"] = "true"
			}
			c.do(in, "POST", "/auth/login", f)
		}},
		{"probe", func(c *cClient, in *sut.Instance) { c.do(in, "GET", "/probe", nil) }},
		{"badlogin", func(c *cClient, in *sut.Instance) {
			c.do(in, "POST", "/auth/login", map[string]string{"email": c.pid, "password": "nope"})
		}},
		{"getlogin", func(c *cClient, in *sut.Instance) { c.do(in, "GET", "/auth/login", nil) }},
	}
	if mods["otp"] {
		st = append(st,
			schedStep{"otpadd", func(c *cClient, in *sut.Instance) {
				_, _, body := c.do(in, "POST", "/auth/otp/add", nil)
				var m map[string]interface{}
				if json.Unmarshal([]byte(body), &m) == nil {
					if o, ok := m["otp"].(string); ok {
						c.otps = append(c.otps, o)
					}
				}
			}},
			schedStep{"logout", func(c *cClient, in *sut.Instance) { c.do(in, "DELETE", "/auth/logout", nil) }},
			schedStep{"otplogin", func(c *cClient, in *sut.Instance) {
				o := "none"
				if len(c.otps) > 0 {
					o = c.otps[len(c.otps)-1]
					c.otps = c.otps[:len(c.otps)-1]
				}
				c.do(in, "POST", "/auth/otp/login", map[string]string{"email": c.pid, "password": o})
			}})
	}
	if mods["remember"] {
		st = append(st,
			schedStep{"dropsession", func(c *cClient, in *sut.Instance) { c.jar.Session = nil; c.out = append(c.out, "drop session") }},
			schedStep{"probe-by-cookie", func(c *cClient, in *sut.Instance) { c.do(in, "GET", "/probe", nil) }})
	}
	if mods["recover"] {
		st = append(st,
			schedStep{"recoverstart", func(c *cClient, in *sut.Instance) {
				c.do(in, "POST", "/auth/recover", map[string]string{"email": c.pid})
				for _, m := range in.Mail.TakeFor(c.pid) {
					c.tokens[m.Kind] = m.Tok
				}
			}},
			schedStep{"badrecoverend", func(c *cClient, in *sut.Instance) {
				c.do(in, "POST", "/auth/recover/end", map[string]string{"token": "bm90IGEgdG9rZW4gYXQgYWxsIGJ1dCBsb25nIGVub3VnaCB0byBiZSBvbmUsIHJlYWxseSwgNjQgYnl0ZXMhIQ==", "password": c.pw + "y", "confirm_password": c.pw + "y"})
			}},
			schedStep{"recoverend", func(c *cClient, in *sut.Instance) {
				tok := c.tokens["recover"]
				delete(c.tokens, "recover")
				if tok == "" {
					tok = "bm9wZQ"
				} else {
					c.pw = c.pw + "x"
				}
				c.do(in, "POST", "/auth/recover/end", map[string]string{"token": tok, "password": c.pw, "confirm_password": c.pw})
			}})
	}
	if mods["oauth2"] {
		st = append(st,
			schedStep{"oauthstart", func(c *cClient, in *sut.Instance) { c.do(in, "GET", "/auth/oauth2/pa?rm=true", nil) }},
			schedStep{"oauthcallback", func(c *cClient, in *sut.Instance) {
				state := c.jar.Session["oauth2_state"]
				if state == "" {
					state = "none"
				}
				c.do(in, "GET", "/auth/oauth2/callback/pa?state="+url.QueryEscape(state)+"&code="+url.QueryEscape(fmt.Sprintf("uid:c%d", c.id)), nil)
			}})
	}
	if mods["register"] {
		st = append(st, schedStep{"reregister", func(c *cClient, in *sut.Instance) {
			c.do(in, "POST", "/auth/register", map[string]string{"email": c.pid, "password": c.pw, "confirm_password": c.pw})
		}})
	}
	st = append(st, schedStep{"logout", func(c *cClient, in *sut.Instance) { c.do(in, "DELETE", "/auth/logout", nil) }})
	return st
}

func cloneClient(c *cClient) *cClient {
	n := *c
	n.tokens = map[string]string{}
	for k, v := range c.tokens {
		n.tokens[k] = v
	}
	n.otps = append([]string(nil), c.otps...)
	n.out = nil
	n.jar = sut.Jar{Session: map[string]string{}, Cookie: map[string]string{}}
	for k, v := range c.jar.Session {
		n.jar.Session[k] = v
	}
	for k, v := range c.jar.Cookie {
		n.jar.Cookie[k] = v
	}
	if c.jar.Session == nil {
		n.jar.Session = nil
	}
	if c.jar.Cookie == nil {
		n.jar.Cookie = nil
	}
	return &n
}

// the client-state keys whose values the library draws at random
var randomKeys = map[string]bool{"oauth2_state": true, "rm": true, "twofactor_auth_token": true, "sms_secret": true, "totp_secret": true}

func sharedSecret(a, b *cClient) string {
	for _, pair := range [][2]map[string]string{{a.jar.Session, b.jar.Session}, {a.jar.Cookie, b.jar.Cookie}} {
		for k, v := range pair[0] {
			if randomKeys[k] && v != "" && pair[1][k] == v {
				return k
			}
		}
	}
	return ""
}

// observe runs one step of one client and returns what that client can see of it
func observe(in *sut.Instance, c *cClient, st schedStep) string {
	st.run(c, in)
	return strings.Join(c.out, "\n") + "\nfinal " + finalState(in, c)
}

var baseRand = crand.Reader

func schedCmd(args []string) {
	fs := flag.NewFlagSet("sched", flag.ExitOnError)
	rowsF := fs.String("rows", "", "schedules ndjson (from TLC)")
	out := fs.String("out", "", "result file")
	offsets := fs.Int("offsets", 2, "how many rotations of the second client's script are paired with the first client's")
	maxPer := fs.Int("maxper", 0, "cap on schedules replayed per pair of requests (0 = all)")
	seed := fs.Int64("seed", 1, "seed (picks the schedules when capped)")
	fs.Parse(args)
	f, err := os.Open(*rowsF)
	if err != nil {
		fmt.Fprintln(os.Stderr, err)
		os.Exit(2)
	}
	byN := map[[2]int][][]string{}
	maxN := 0
	sc := bufio.NewScanner(f)
	sc.Buffer(make([]byte, 1<<20), 1<<26)
	for sc.Scan() {
		var r schedRow
		if err := json.Unmarshal(sc.Bytes(), &r); err != nil {
			fmt.Fprintln(os.Stderr, "row parse:", err)
			os.Exit(2)
		}
		byN[[2]int{r.Na, r.Nb}] = append(byN[[2]int{r.Na, r.Nb}], r.Sched)
		if r.Na > maxN {
			maxN = r.Na
		}
	}
	type diff struct {
		Mods     []string `json:"mods"`
		StepA    string   `json:"stepA"`
		StepB    string   `json:"stepB"`
		Round    int      `json:"round"`
		Offset   int      `json:"offset"`
		Schedule []string `json:"schedule"`
		Client   string   `json:"client"`
		Solo     string   `json:"solo"`
		Observed string   `json:"observed"`
	}
	diffs := []diff{}
	execs, pairs, clamped := 0, 0, 0
	modSets := [][]string{
		{"auth", "logout", "recover", "lock", "otp"},
		{"auth", "logout", "remember", "recover", "register", "confirm", "expire"},
		{"auth", "logout", "oauth2", "remember"},
	}
	for mi, mods := range modSets {
		mm := map[string]bool{}
		for _, m := range mods {
			mm[m] = true
		}
		steps := schedSteps(mm)
		for off := 0; off < *offsets; off++ {
			cfg := sut.Config{Modules: mods, LockAfter: 3, LockWindow: 2, LockDuration: 2, ExpireAfter: 2, RecoverTTL: 2, LogoutMethod: "DELETE",
				MWFail: "404", MailGo: false, Conc: true, RecoverLogin: true}
			in, err := sut.New(cfg)
			if err != nil {
				fmt.Fprintln(os.Stderr, err)
				os.Exit(2)
			}
			cs := seedConc(in, 2)
			A, B := cs[0], cs[1]
			ctl := &gateCtl{arrive: make(chan string), grant: map[string]chan struct{}{}, count: map[string]int{}}
			in.Store.SetGate(ctl.gate)
			crand.Reader = gateReader{baseRand, ctl}
			// run one step of A and of B under a schedule (nil: A alone / B alone are done by the caller)
			runPair := func(a, b *cClient, sa, sb schedStep, sched []string) (string, string) {
				ctl.active = true
				ctl.grant = map[string]chan struct{}{a.browser: make(chan struct{}), b.browser: make(chan struct{})}
				res := map[string]string{}
				done := map[string]bool{}
				start := func(c *cClient, st schedStep) {
					go func() {
						<-ctl.grant[c.browser]
						o := observe(in, c, st)
						res[c.browser] = o
						ctl.arrive <- "done:" + c.browser
					}()
				}
				start(a, sa)
				start(b, sb)
				step := func(id string) {
					if done[id] {
						return
					}
					ctl.current = id
					ctl.grant[id] <- struct{}{}
					ev := <-ctl.arrive
					if ev == "done:"+id {
						done[id] = true
					} else if ev != id {
						panic("scheduler: unexpected arrival " + ev + " while " + id + " runs")
					}
				}
				for _, t := range sched {
					if t == "a" {
						step(a.browser)
					} else {
						step(b.browser)
					}
				}
				for !done[a.browser] {
					step(a.browser)
				}
				for !done[b.browser] {
					step(b.browser)
				}
				ctl.active = false
				ctl.current = ""
				return res[a.browser], res[b.browser]
			}
			for r := 0; r < len(steps); r++ {
				sa, sb := steps[r], steps[(r+off*3)%len(steps)] // offset 0: the same step of both clients in flight together
				snap := in.Snapshot()
				// solo references (and the number of backend calls each request makes)
				ctl.count = map[string]int{}
				ctl.active = false
				soloRun := func(c *cClient, st schedStep) (string, int) {
					in.Restore(snap)
					in.Mail.TakeFor(c.pid)
					cc := cloneClient(c)
					counter := 0
					in.Store.SetGate(func(ctx context.Context, call sut.Call) {
						if sut.ClientOf(ctx) == cc.browser {
							counter++
						}
					})
					ctl.counting = &counter
					o := observe(in, cc, st)
					ctl.counting = nil
					in.Store.SetGate(ctl.gate)
					return o, counter
				}
				soloA, na := soloRun(A, sa)
				soloB, nb := soloRun(B, sb)
				ka, kb := na, nb
				if ka > maxN {
					ka, clamped = maxN, clamped+1
				}
				if kb > maxN {
					kb, clamped = maxN, clamped+1
				}
				scheds := byN[[2]int{ka, kb}]
				pairs++
				if *maxPer > 0 && len(scheds) > *maxPer {
					// a seeded, evenly spread sample that always keeps the two sequential orders
					keep := [][]string{scheds[0], scheds[len(scheds)-1]}
					stride := len(scheds) / *maxPer
					for i := int(*seed) % stride; i < len(scheds); i += stride {
						keep = append(keep, scheds[i])
					}
					scheds = keep
				}
				for _, s := range scheds {
					in.Restore(snap)
					in.Mail.TakeFor(A.pid)
					in.Mail.TakeFor(B.pid)
					a, b := cloneClient(A), cloneClient(B)
					oa, ob := runPair(a, b, sa, sb, s)
					execs++
					if oa != soloA && len(diffs) < 10 {
						diffs = append(diffs, diff{mods, sa.name, sb.name, r, off, s, "a", soloA, oa})
					}
					if ob != soloB && len(diffs) < 10 {
						diffs = append(diffs, diff{mods, sa.name, sb.name, r, off, s, "b", soloB, ob})
					}
					// whatever random secret the two requests were given (OAuth2 state, remember cookie, tokens kept in
					// the client state), they must not have been given the same one
					if k := sharedSecret(a, b); k != "" && len(diffs) < 10 {
						diffs = append(diffs, diff{mods, sa.name, sb.name, r, off, s, "a+b", "distinct random secrets", "both clients hold the same " + k})
					}
				}
				// advance the reference state: A's step, then B's
				in.Restore(snap)
				ctl.active = false
				sa.run(A, in)
				sb.run(B, in)
				A.out, B.out = nil, nil
			}
			_ = mi
		}
	}
	b, _ := json.Marshal(map[string]interface{}{"pairs": pairs, "executions": execs, "clamped": clamped, "diffs": diffs})
	os.WriteFile(*out, b, 0o644)
}

func init() { extra["sched"] = schedCmd }
