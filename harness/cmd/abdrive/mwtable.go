package main

import (
	"bufio"
	"encoding/json"
	"flag"
	"fmt"
	"math/rand"
	"net/url"
	"os"
	"strings"

	"abverif/sut"

	"github.com/volatiletech/authboss/v3"
)

// C08: executes every row of spec/Middleware.tla's table against the real
// Middleware2 / MountedMiddleware2 with k concrete paths and queries per row.

type mwRow struct {
	Row struct {
		Uid   string `json:"uid"`
		Half  bool   `json:"half"`
		Twofa bool   `json:"twofa"`
		Reqs  int    `json:"reqs"`
		Mode  string `json:"mode"`
		Mount bool   `json:"mount"`
		Store string `json:"store"`
	} `json:"row"`
	Out struct {
		Class string `json:"class"`
		Ran   bool   `json:"ran"`
	} `json:"out"`
}

var pathSegs = []string{"a", "settings", "x y", "a&b", "q=1", "100%25", "%2F", "ü", "a+b", "semi;colon", "~t"}
var queryKeys = []string{"a", "redir", "x y", "k&", "ü", "p%", "n"}
var queryVals = []string{"1", "", "a b", "a&b=c", "%zz", "http://evil.example/", "/path?x", "ü", "+", "#frag"}

func randPathQuery(rng *rand.Rand, base string) (string, string, string) {
	n := rng.Intn(4)
	segs := []string{}
	for i := 0; i < n; i++ {
		segs = append(segs, pathSegs[rng.Intn(len(pathSegs))])
	}
	plain := base
	esc := base
	for _, s := range segs {
		plain += "/" + s
		esc += "/" + url.PathEscape(s)
	}
	q := ""
	for i, m := 0, rng.Intn(4); i < m; i++ {
		if q != "" {
			q += "&"
		}
		q += url.QueryEscape(queryKeys[rng.Intn(len(queryKeys))]) + "=" + url.QueryEscape(queryVals[rng.Intn(len(queryVals))])
	}
	return plain, esc, q
}

func mwtable(args []string) {
	fs := flag.NewFlagSet("mwtable", flag.ExitOnError)
	rowsF := fs.String("rows", "", "rows ndjson (from TLC)")
	out := fs.String("out", "", "result file")
	k := fs.Int("k", 5, "paths per row")
	seed := fs.Int64("seed", 1, "seed")
	fs.Parse(args)
	f, err := os.Open(*rowsF)
	if err != nil {
		fmt.Fprintln(os.Stderr, err)
		os.Exit(2)
	}
	rng := rand.New(rand.NewSource(*seed))
	type mismatch struct {
		Row      interface{} `json:"row"`
		Path     string      `json:"path"`
		Field    string      `json:"field"`
		Expected interface{} `json:"expected"`
		Observed interface{} `json:"observed"`
	}
	mism := []mismatch{}
	rows, execs, followed := 0, 0, 0
	sc := bufio.NewScanner(f)
	sc.Buffer(make([]byte, 1<<20), 1<<26)
	for sc.Scan() {
		var r mwRow
		if err := json.Unmarshal(sc.Bytes(), &r); err != nil {
			fmt.Fprintln(os.Stderr, "row parse:", err)
			os.Exit(2)
		}
		rows++
		cfg := sut.Config{Modules: []string{"auth", "logout"}, MWReqs: r.Row.Reqs, MWFail: r.Row.Mode, LockAfter: 3, LockWindow: 2, LockDuration: 2, ExpireAfter: 2, RecoverTTL: 2, LogoutMethod: "DELETE"}
		w, err := sut.NewWorld(cfg, sut.AllPids, []string{"b1"})
		if err != nil {
			fmt.Fprintln(os.Stderr, err)
			os.Exit(2)
		}
		w.ApplySeed([]sut.SeedUser{{Pid: "u1", Pw: 1, Conf: true}})
		for i := 0; i < *k; i++ {
			w.In.Sess.Clear("b1")
			switch r.Row.Uid {
			case "known":
				w.In.Sess.Set("b1", authboss.SessionKey, sut.PidPool["u1"])
			case "unknown":
				w.In.Sess.Set("b1", authboss.SessionKey, "nobody@x.io")
			}
			if r.Row.Half {
				w.In.Sess.Set("b1", authboss.SessionHalfAuthKey, "true")
			}
			if r.Row.Twofa {
				w.In.Sess.Set("b1", authboss.Session2FA, "totp")
			}
			base := "/probe"
			if r.Row.Mount {
				base = "/mprobe"
			}
			if i%3 == 2 && r.Row.Mode != "401" {
				// every third execution goes through the deprecated Middleware / MountedMiddleware wrappers
				base = "/dprobe"
				if r.Row.Mount {
					base = "/dmprobe"
				}
			}
			plain, esc, q := randPathQuery(rng, base)
			if (r.Row.Mount || base == "/dprobe") && plain == base {
				plain, esc = base+"/", base+"/"
			}
			full := esc
			if q != "" {
				full += "?" + q
			}
			rq := sut.Req{Browser: "b1", Method: "GET", Path: full}
			switch r.Row.Store {
			case "notfound":
				rq.Fault, rq.FaultE = 1, "notfound"
			case "error":
				rq.Fault, rq.FaultE = 1, "io"
			}
			resp := w.In.Do(rq)
			execs++
			ran := resp.Probe != nil && resp.Probe.Ran
			class := ""
			switch {
			case resp.Panic != "":
				class = "panic"
			case ran:
				class = "ok"
			case resp.Status == 404:
				class = "refuse404"
			case resp.Status == 401:
				class = "refuse401"
			case resp.Status == 500:
				class = "error500"
			case resp.Status == 302 || resp.Status == 307:
				class = "refuseLogin"
			default:
				class = fmt.Sprintf("status%d", resp.Status)
			}
			add := func(field string, exp, obs interface{}) {
				mism = append(mism, mismatch{r.Row, full, field, exp, obs})
			}
			if ran != r.Out.Ran {
				add("ran", r.Out.Ran, ran)
			}
			if class != r.Out.Class {
				add("class", r.Out.Class, class)
			}
			if r.Out.Class == "refuseLogin" && class == "refuseLogin" {
				// the redirect must go to the login page and carry the original path (+mount) and raw query
				u, err := url.Parse(resp.Location)
				want := plain
				if r.Row.Mount {
					want = "/auth" + plain
					want = strings.TrimSuffix(want, "/") // path.Join cleans the joined path
					if plain == base+"/" {
						want = "/auth" + base
					}
				}
				if q != "" {
					want += "?" + q
				}
				if err != nil || u.Path != "/auth/login" {
					add("loginpage", "/auth/login", resp.Location)
				} else if got := u.Query().Get("redir"); !sameTarget(got, want) {
					add("redir", want, got)
				} else if !strings.Contains(got, "://") && !strings.Contains(got, "..") {
					// login returns there
					lr := w.In.Do(sut.Req{Browser: "b1", Method: "POST", Path: "/auth/login", Form: map[string]string{"email": sut.PidPool["u1"], "password": sut.PwPool[0], "redir": got}})
					followed++
					if !sameURL(lr.Location, got) {
						add("loginReturns", got, lr.Location)
					}
					w.In.Sess.Clear("b1")
				}
			}
		}
	}
	res := map[string]interface{}{"rows": rows, "executions": execs, "followed": followed, "mismatches": mism}
	b, _ := json.Marshal(res)
	os.WriteFile(*out, b, 0o644)
}

// sameTarget compares redirect targets: the path part is compared after
// path-cleaning of dot segments is accounted for by the caller; here exact.
func sameTarget(got, want string) bool { return got == want }

// sameURL: http.Redirect percent-encodes non-ASCII path bytes; the target is the same URL.
func sameURL(a, b string) bool {
	ua, e1 := url.Parse(a)
	ub, e2 := url.Parse(b)
	return e1 == nil && e2 == nil && ua.Path == ub.Path && ua.RawQuery == ub.RawQuery && ua.Host == ub.Host
}

func init() { extra["mwtable"] = mwtable }
