package main

import (
	"fmt"
	"sync"
)

func panicErr(p interface{}) error { return fmt.Errorf("harness panic: %v", p) }

func randomTraces(family string, n, depth int, seed int64, workers int) ([][]Line, error) {
	out := make([][]Line, n)
	errs := make([]error, n)
	var wg sync.WaitGroup
	sem := make(chan struct{}, workers)
	for i := 0; i < n; i++ {
		wg.Add(1)
		sem <- struct{}{}
		go func(i int) {
			defer wg.Done()
			defer func() { <-sem }()
			out[i], errs[i] = randomScenario(family, depth, seed*1000003+int64(i))
		}(i)
	}
	wg.Wait()
	for _, e := range errs {
		if e != nil {
			return nil, e
		}
	}
	return out, nil
}

var extra = map[string]func([]string){}

func extraCommand(cmd string, args []string) bool {
	f, ok := extra[cmd]
	if ok {
		f(args)
	}
	return ok
}
