package main

import (
	"crypto/sha256"
	"encoding/json"
	"flag"
	"fmt"
	"os"
	"sync"

	"abverif/sut"
)

// explore: exhaustive, depth-bounded exploration of the REAL system's abstract
// state graph for one MC family (the same worlds and event sets as
// spec/MC.tla, transliterated below). Every edge is executed exactly once using
// world snapshots (save / restore / drop lines fork the TLC state alongside),
// and every edge is then validated by TLC against the specification. This is
// the complement of the model-checking run: there TLC exhausts the
// specification, here the code is exhausted within the same bounds.

var b12 = []string{"b1", "b2"}

func c0(mods ...string) sut.Config {
	return sut.Config{Modules: mods, LockAfter: 2, LockWindow: 2, LockDuration: 2, ExpireAfter: 2, RecoverTTL: 2, LogoutMethod: "DELETE", MWFail: "404"}
}

func s0(pid string, pw int, conf bool) sut.SeedUser { return sut.SeedUser{Pid: pid, Pw: pw, Conf: conf} }

func mcWorlds(family string) []Scenario {
	seed2 := []sut.SeedUser{s0("u1", 1, true), s0("u2", 2, true)}
	seedUnconf := []sut.SeedUser{s0("u1", 1, true), s0("u2", 2, false)}
	var ws []Scenario
	add := func(c sut.Config, sd []sut.SeedUser) {
		ws = append(ws, Scenario{Name: "explore:" + family, Cfg: c, Seed: sd, Pids: []string{"u1", "u2", "g1"}, Browsers: b12})
	}
	switch family {
	case "login":
		for _, m := range [][]string{{"auth", "logout"}, {"auth", "lock", "confirm", "logout"}, {"confirm", "lock", "auth", "logout"}} {
			add(c0(m...), seed2)
			add(c0(m...), seedUnconf)
		}
	case "lock":
		for _, la := range []int{1, 2} {
			for _, w := range []int{1, 2} {
				for _, d := range []int{1, 3} {
					c := c0("auth", "lock", "logout")
					c.LockAfter, c.LockWindow, c.LockDuration = la, w, d
					add(c, seed2)
				}
			}
		}
	case "remember":
		for _, m := range [][]string{{"auth", "remember", "logout"}, {"auth", "remember", "recover", "logout"}} {
			for _, rl := range []bool{false, true} {
				c := c0(m...)
				c.RecoverLogin, c.MWReqs = rl, 1
				add(c, seed2)
			}
		}
	case "expire":
		for _, ea := range []int{1, 2} {
			for _, wl := range [][]string{{}, {"app1"}} {
				c := c0("auth", "expire", "logout")
				c.ExpireAfter, c.Whitelist = ea, wl
				add(c, seed2)
			}
		}
	case "recover":
		for _, m := range [][]string{{"auth", "recover", "logout"}, {"auth", "recover", "confirm", "lock", "logout"}} {
			for _, rl := range []bool{false, true} {
				for _, sd := range [][]sut.SeedUser{seed2, seedUnconf} {
					c := c0(m...)
					c.RecoverLogin, c.RecoverTTL = rl, 1
					add(c, sd)
				}
			}
		}
	case "register":
		for _, m := range [][]string{{"auth", "register", "logout"}, {"auth", "register", "confirm", "logout"}} {
			add(c0(m...), []sut.SeedUser{s0("u1", 1, true)})
		}
	case "otp":
		for _, m := range [][]string{{"auth", "otp", "logout"}, {"auth", "otp", "lock", "logout"}} {
			c := c0(m...)
			c.LockAfter = 1
			add(c, []sut.SeedUser{{Pid: "u1", Pw: 1, Conf: true, Otps: 2}, {Pid: "u2", Pw: 2, Conf: true, Otps: 4}})
		}
	case "twofa":
		for _, m := range [][]string{{"auth", "totp", "sms", "logout"}, {"auth", "sms", "totp", "lock", "logout"}, {"auth", "otp", "recover", "totp", "sms", "logout"},
			{"auth", "remember", "totp", "sms", "logout"}} {
			for _, ot := range []bool{false, true} {
				c := c0(m...)
				c.TotpOneTime, c.RecoverLogin, c.LockAfter = ot, true, 1
				add(c, []sut.SeedUser{{Pid: "u1", Pw: 1, Conf: true, Totp: true, Rc: true}, {Pid: "u2", Pw: 2, Conf: true, Sms: 1, Rc: true}})
			}
		}
	case "smsswitch":
		add(c0("auth", "sms", "logout"), []sut.SeedUser{{Pid: "u1", Pw: 1, Conf: true, Sms: 1, Rc: true}, {Pid: "u2", Pw: 2, Conf: true, Sms: 2}})
	case "tfasetup":
		for _, m := range [][]string{{"auth", "totp", "sms", "recovery", "logout"}, {"auth", "remember", "totp", "sms", "recovery", "logout"}} {
			for _, ea := range []bool{false, true} {
				c := c0(m...)
				c.EmailAuth, c.AppHandles2FA = ea, ea
				add(c, seed2)
			}
		}
		// starting from established sessions (Steps = events run before the exploration)
		sd := []sut.SeedUser{{Pid: "u1", Pw: 1, Conf: true, Sms: 1, Rc: true}, {Pid: "u2", Pw: 2, Conf: true, Totp: true, Rc: true}}
		for _, pre := range [][]sut.Event{
			{{Act: "LoginPost", B: "b1", Pid: "u1", Pw: 1}, {Act: "SmsValidate", B: "b1", Code: 1}, {Act: "Tick", D: 1}},
			{{Act: "LoginPost", B: "b1", Pid: "u2", Pw: 2}, {Act: "TotpValidate", B: "b1", Tok: 1, Code: 1}},
		} {
			add(c0("auth", "totp", "sms", "recovery", "logout"), sd)
			ws[len(ws)-1].Steps = pre
		}
		// an account that enrolled TOTP after a remembered login, now back on its cookie alone (half-authenticated)
		add(c0("auth", "remember", "totp", "sms", "recovery", "logout"), seed2)
		ws[len(ws)-1].Steps = []sut.Event{{Act: "LoginPost", B: "b1", Pid: "u1", Pw: 1, Rm: true}, {Act: "TotpSetup", B: "b1"},
			{Act: "TotpConfirm", B: "b1", Tok: 1, Code: 1}, {Act: "DropSession", B: "b1"}}
		// ... the same with an application that calls remember.Authenticate from its own middleware
		ws = append(ws, ws[len(ws)-1])
		ws[len(ws)-1].Cfg.SelfAuth = true
		// a plain account, logged in
		for _, ea := range []bool{false, true} {
			c := c0("auth", "totp", "sms", "recovery", "logout")
			c.EmailAuth, c.AppHandles2FA = ea, ea
			add(c, seed2)
			ws[len(ws)-1].Steps = []sut.Event{{Act: "LoginPost", B: "b1", Pid: "u1", Pw: 1}}
		}
	case "oauth":
		for _, m := range [][]string{{"auth", "oauth2", "logout"}, {"auth", "oauth2", "lock", "remember", "logout"}} {
			for _, ew := range []bool{false, true} {
				c := c0(m...)
				c.ErrWrites = ew
				add(c, []sut.SeedUser{s0("u1", 1, true)})
			}
		}
	}
	// the families' established worlds (MC.tla PreVariants)
	var pre [][]sut.Event
	switch family {
	case "remember":
		pre = [][]sut.Event{{{Act: "LoginPost", B: "b1", Pid: "u1", Pw: 1, Rm: true}, {Act: "DropSession", B: "b1"}},
			{{Act: "LoginPost", B: "b1", Pid: "u1", Pw: 1, Rm: true}, {Act: "DropSession", B: "b1"}, {Act: "LoginPost", B: "b2", Pid: "u2", Pw: 2}}}
	case "expire":
		pre = [][]sut.Event{{{Act: "LoginPost", B: "b1", Pid: "u1", Pw: 1}}}
	case "recover":
		pre = [][]sut.Event{{{Act: "RecoverStart", B: "b1", Pid: "u1"}}}
	case "otp":
		pre = [][]sut.Event{{{Act: "LoginPost", B: "b1", Pid: "u2", Pw: 2}}}
	case "oauth":
		pre = [][]sut.Event{{{Act: "OAuthStart", B: "b1", Prov: "pa", Rm: true}}}
	case "twofa":
		pre = [][]sut.Event{{{Act: "LoginPost", B: "b1", Pid: "u1", Pw: 1}}, {{Act: "LoginPost", B: "b1", Pid: "u2", Pw: 2}}}
	case "lock":
		pre = [][]sut.Event{{{Act: "LoginPost", B: "b1", Pid: "u1", Pw: -1}}}
	}
	base := len(ws)
	for i := 0; i < base; i++ {
		if len(ws[i].Steps) > 0 {
			continue
		}
		for _, p := range pre {
			w := ws[i]
			w.Steps = p
			ws = append(ws, w)
		}
	}
	return ws
}

func rng1(n int) []int {
	out := make([]int, n)
	for i := range out {
		out[i] = i + 1
	}
	return out
}

func mcEvents(family string, c sut.Config, o sut.Obs, iss map[string]int) []sut.Event {
	var es []sut.Event
	ev := func(e sut.Event) { e.Valid = true; es = append(es, e) }
	probeLogout := func() {
		for _, b := range b12 {
			ev(sut.Event{Act: "Probe", B: b})
			ev(sut.Event{Act: "Probe", B: b, K: "alt1"})
			ev(sut.Event{Act: "Probe", B: b, K: "bare"})
			ev(sut.Event{Act: "Get", B: b, K: "login"})
			for _, m := range []string{c.LogoutMethod, "GET", "HEAD"} {
				ev(sut.Event{Act: "Logout", B: b, Method: m})
			}
		}
	}
	ticks := func(ds ...int) {
		seen := map[int]bool{}
		for _, d := range ds {
			if !seen[d] {
				seen[d] = true
				ev(sut.Event{Act: "Tick", D: d})
			}
		}
	}
	tocks := func(ds ...int) {
		for _, d := range ds {
			ev(sut.Event{Act: "Tock", D: d})
		}
	}
	loginEvents := func() {
		for _, b := range b12 {
			for _, p := range []string{"u1", "u2", "g1"} {
				for _, w := range []int{1, 2, -1} {
					for _, r := range []bool{false, true} {
						ev(sut.Event{Act: "LoginPost", B: b, Pid: p, Pw: w, Rm: r})
					}
				}
			}
		}
	}
	switch family {
	case "login":
		loginEvents()
		probeLogout()
		ticks(1, 3)
		if c.Has("lock") {
			ev(sut.Event{Act: "AdminLock", Pid: "u1"})
			ev(sut.Event{Act: "AdminUnlock", Pid: "u1"})
		}
		if c.Has("confirm") {
			ev(sut.Event{Act: "RestartConfirm", Pid: "u1"})
			for _, t := range append([]int{-1}, rng1(iss["ct"])...) {
				ev(sut.Event{Act: "ConfirmGet", B: "b1", Tok: t})
			}
		}
	case "lock":
		for _, p := range []string{"u1", "u2"} {
			for _, w := range []int{1, 2, -1} {
				ev(sut.Event{Act: "LoginPost", B: "b1", Pid: p, Pw: w})
			}
		}
		ticks(1, c.LockWindow, c.LockWindow+1, c.LockDuration, c.LockDuration+1)
		tocks(5, 6)
		ev(sut.Event{Act: "AdminLock", Pid: "u1"})
		ev(sut.Event{Act: "AdminUnlock", Pid: "u1"})
		ev(sut.Event{Act: "Probe", B: "b1"})
	case "remember":
		for _, b := range b12 {
			for _, p := range []string{"u1", "u2"} {
				own := map[string]int{"u1": 1, "u2": 2}[p]
				for _, w := range []int{own, -1} {
					for _, r := range []bool{false, true} {
						ev(sut.Event{Act: "LoginPost", B: b, Pid: p, Pw: w, Rm: r})
					}
				}
			}
		}
		probeLogout()
		ev(sut.Event{Act: "StealCookie", B: "b1", K: "b2"})
		ev(sut.Event{Act: "DropSession", B: "b1"})
		ev(sut.Event{Act: "DropSession", B: "b2"})
		ev(sut.Event{Act: "JunkCookie", B: "b2"})
		ev(sut.Event{Act: "UpdatePassword", Pid: "u1", Pw: 3})
		if c.Has("recover") {
			ev(sut.Event{Act: "RecoverStart", B: "b1", Pid: "u1"})
			for _, b := range b12 {
				for _, t := range rng1(iss["rt"]) {
					ev(sut.Event{Act: "RecoverEnd", B: b, Tok: t, Pw: 3})
				}
			}
		}
	case "expire":
		for _, b := range b12 {
			ev(sut.Event{Act: "LoginPost", B: b, Pid: "u1", Pw: 1})
		}
		probeLogout()
		ticks(1, c.ExpireAfter, c.ExpireAfter+1)
		tocks(1, 5, 6)
		ev(sut.Event{Act: "AppKey", B: "b1", K: "app1"})
		ev(sut.Event{Act: "AppKey", B: "b1", K: "app2"})
	case "recover":
		for _, p := range []string{"u1", "u2"} {
			for _, w := range []int{1, 2, 3} {
				ev(sut.Event{Act: "LoginPost", B: "b1", Pid: p, Pw: w})
			}
		}
		for _, p := range []string{"u1", "u2", "g1"} {
			ev(sut.Event{Act: "RecoverStart", B: "b1", Pid: p})
		}
		for _, b := range b12 {
			for _, t := range append([]int{-1}, rng1(iss["rt"])...) {
				for _, v := range []bool{true, false} {
					e := sut.Event{Act: "RecoverEnd", B: b, Tok: t, Pw: 3}
					e.Valid = v
					es = append(es, e)
				}
			}
		}
		ticks(1, 2)
		tocks(5, 6)
		ev(sut.Event{Act: "Probe", B: "b1"})
		ev(sut.Event{Act: "Probe", B: "b2"})
		if c.Has("lock") {
			ev(sut.Event{Act: "AdminLock", Pid: "u1"})
		}
	case "register":
		for _, b := range b12 {
			for _, p := range []string{"u1", "u2"} {
				for _, w := range []int{1, 2} {
					for _, v := range []bool{true, false} {
						e := sut.Event{Act: "RegisterPost", B: b, Pid: p, Pw: w}
						e.Valid = v
						es = append(es, e)
					}
				}
			}
		}
		loginEvents()
		probeLogout()
		if c.Has("confirm") {
			for _, t := range append([]int{-1}, rng1(iss["ct"])...) {
				ev(sut.Event{Act: "ConfirmGet", B: "b1", Tok: t})
			}
		}
	case "otp":
		for _, b := range b12 {
			for _, p := range []string{"u1", "u2"} {
				for _, t := range append([]int{-1}, rng1(iss["otp"])...) {
					ev(sut.Event{Act: "OtpLoginPost", B: b, Pid: p, Tok: t})
				}
			}
		}
		ev(sut.Event{Act: "OtpAdd", B: "b1"})
		ev(sut.Event{Act: "OtpClear", B: "b1"})
		ev(sut.Event{Act: "Probe", B: "b1"})
		ev(sut.Event{Act: "LoginPost", B: "b1", Pid: "u2", Pw: 2})
		ticks(3)
	case "twofa":
		if c.Has("remember") {
			ev(sut.Event{Act: "DropSession", B: "b1"})
		}
		for _, b := range b12 {
			for _, p := range []string{"u1", "u2"} {
				for _, w := range []int{1, 2} {
					ev(sut.Event{Act: "LoginPost", B: b, Pid: p, Pw: w, Rm: c.Has("remember")})
				}
			}
			for _, k := range []int{1, 3, -1} {
				ev(sut.Event{Act: "TotpValidate", B: b, Tok: 1, Code: k})
			}
			for _, g := range []int{1, 2} {
				ev(sut.Event{Act: "TotpValidate", B: b, Rc: 1, G: g})
				ev(sut.Event{Act: "SmsValidate", B: b, Rc: 1, G: g})
			}
			for _, k := range append([]int{0, -1}, rng1(iss["sc"])...) {
				ev(sut.Event{Act: "SmsValidate", B: b, Code: k})
			}
			ev(sut.Event{Act: "Probe", B: b})
		}
		ticks(1)
		if c.Has("lock") {
			ev(sut.Event{Act: "AdminLock", Pid: "u1"})
			ev(sut.Event{Act: "AdminLock", Pid: "u2"})
		}
		if c.Has("otp") {
			ev(sut.Event{Act: "OtpLoginPost", B: "b1", Pid: "u1", Tok: 1})
		}
		if c.Has("recover") {
			ev(sut.Event{Act: "RecoverStart", B: "b1", Pid: "u1"})
			for _, t := range rng1(iss["rt"]) {
				ev(sut.Event{Act: "RecoverEnd", B: "b1", Tok: t, Pw: 3})
			}
		}
	case "smsswitch":
		for _, p := range []string{"u1", "u2"} {
			for _, w := range []int{1, 2} {
				ev(sut.Event{Act: "LoginPost", B: "b1", Pid: p, Pw: w})
			}
		}
		for _, k := range append([]int{0, -1}, rng1(iss["sc"])...) {
			ev(sut.Event{Act: "SmsValidate", B: "b1", Code: k})
		}
		ev(sut.Event{Act: "SmsValidate", B: "b1", Rc: 1, G: 1})
		ticks(1)
		ev(sut.Event{Act: "Probe", B: "b1"})
		ev(sut.Event{Act: "Logout", B: "b1", Method: c.LogoutMethod})
	case "tfasetup":
		for _, p := range []string{"u1", "u2"} {
			for _, w := range []int{1, 2} {
				ev(sut.Event{Act: "LoginPost", B: "b1", Pid: p, Pw: w, Rm: c.Has("remember")})
			}
		}
		for _, a := range []string{"TotpSetup", "SmsSetupGet", "RecoveryRegen"} {
			ev(sut.Event{Act: a, B: "b1"})
		}
		for _, k := range []string{"totpConfirm", "totpRemove", "smsConfirm", "recoveryRegen"} {
			ev(sut.Event{Act: "Get", B: "b1", K: k})
		}
		for _, t := range rng1(iss["ts"]) {
			for _, k := range []int{1, -1} {
				ev(sut.Event{Act: "TotpConfirm", B: "b1", Tok: t, Code: k})
			}
			for _, k := range []int{3, -1} {
				ev(sut.Event{Act: "TotpRemove", B: "b1", Tok: t, Code: k})
			}
		}
		for _, g := range rng1(iss["rc"]) {
			ev(sut.Event{Act: "TotpRemove", B: "b1", Rc: 1, G: g})
		}
		for _, ph := range []int{1, 2} {
			ev(sut.Event{Act: "SmsSetup", B: "b1", Phone: ph})
		}
		for _, a := range []string{"SmsConfirm", "SmsRemove"} {
			for _, k := range append([]int{0, -1}, rng1(iss["sc"])...) {
				ev(sut.Event{Act: a, B: "b1", Code: k})
			}
		}
		if c.EmailAuth {
			for _, k := range []string{"totp", "sms"} {
				ev(sut.Event{Act: "EmailVerifyStart", B: "b1", Kind: k})
			}
			for _, t := range append([]int{-1}, rng1(iss["tt"])...) {
				ev(sut.Event{Act: "EmailVerifyEnd", B: "b1", Kind: "totp", Tok: t})
			}
		}
		ticks(1)
		if c.Has("remember") {
			ev(sut.Event{Act: "DropSession", B: "b1"})
		}
	case "oauth":
		for _, b := range b12 {
			for _, p := range []string{"pa", "pb"} {
				for _, r := range []bool{false, true} {
					ev(sut.Event{Act: "OAuthStart", B: b, Prov: p, Rm: r})
				}
				for _, t := range append([]int{-1}, rng1(iss["os"])...) {
					for _, oc := range []string{"x", "y", "error", "exchangeFail"} {
						ev(sut.Event{Act: "OAuthCallback", B: b, Prov: p, Tok: t, Outcome: oc})
					}
				}
			}
		}
		probeLogout()
		ev(sut.Event{Act: "LoginPost", B: "b1", Pid: "o_pa_x", Pw: -1})
		ev(sut.Event{Act: "LoginPost", B: "b1", Pid: "u1", Pw: -1})
		if c.Has("lock") && o.Db["o_pa_x"].Ex {
			ev(sut.Event{Act: "AdminLock", Pid: "o_pa_x"})
		}
	}
	return es
}

type explorer struct {
	family           string
	w                *sut.World
	cfg              sut.Config
	visited          map[[32]byte]int
	lines            []Line
	edges            int
	maxNow, maxIss   int
	shard, shards    int
	topIndex         int
}

func (x *explorer) key(o sut.Obs, iss map[string]int) [32]byte {
	b, _ := json.Marshal(struct {
		O sut.Obs
		I map[string]int
	}{o, iss})
	return sha256.Sum256(b)
}

// Work is split over the shards at the SECOND level (every shard takes all first-level edges,
// then every shards-th second-level edge): first-level subtrees differ too much in size.
func (x *explorer) dfs(left int, top bool) { x.dfsL(left, 0) }

func (x *explorer) dfsL(left int, level int) {
	o := x.w.Project()
	iss := x.w.Issued()
	k := x.key(o, iss)
	if v, ok := x.visited[k]; ok && v >= left {
		return
	}
	x.visited[k] = left
	if left == 0 || o.Now > x.maxNow*sut.G {
		return
	}
	for _, n := range iss {
		if n > x.maxIss {
			return
		}
	}
	for _, e := range mcEvents(x.family, x.cfg, o, iss) {
		if level == 1 || (level == 0 && left == 1) {
			x.topIndex++
			if x.topIndex%x.shards != x.shard {
				continue
			}
		}
		e := e // (go.mod says go 1.20: the loop variable is shared)
		snap := x.w.Snapshot()
		x.lines = append(x.lines, Line{Kind: "save"})
		ro, rq, _ := x.w.Step(e)
		(&e).Norm()
		po := x.w.Project()
		x.lines = append(x.lines, Line{Kind: "ev", E: &e, Post: &po, Resp: &ro, Req: rq, Iss: x.w.Issued()})
		x.edges++
		x.dfsL(left-1, level+1)
		x.w.Restore(snap)
		x.lines = append(x.lines, Line{Kind: "restore"}, Line{Kind: "drop"})
	}
}

func exploreCmd(args []string) {
	fs := flag.NewFlagSet("explore", flag.ExitOnError)
	family := fs.String("family", "login", "MC family")
	depth := fs.Int("depth", 4, "depth bound")
	out := fs.String("out", "", "output prefix; writes <prefix>.<shard>.ndjson")
	shards := fs.Int("shards", 16, "shards (by first-level event)")
	maxNow := fs.Int("maxnow", 6, "bound on the abstract clock")
	maxIss := fs.Int("maxiss", 3, "bound on issued-secret counters")
	baseDepth := fs.Int("basedepth", 0, "depth for worlds without an established part, when the family also has worlds with one (0 = depth)")
	fs.Parse(args)
	worlds := mcWorlds(*family)
	if len(worlds) == 0 {
		fmt.Fprintln(os.Stderr, "abdrive explore: unknown family", *family)
		os.Exit(2)
	}
	var wg sync.WaitGroup
	errs := make([]error, *shards)
	edges := make([]int, *shards)
	hasPre := false
	for _, sc := range worlds {
		hasPre = hasPre || len(sc.Steps) > 0
	}
	for sh := 0; sh < *shards; sh++ {
		wg.Add(1)
		go func(sh int) {
			defer wg.Done()
			defer func() {
				if p := recover(); p != nil {
					errs[sh] = panicErr(p)
				}
			}()
			var all [][]Line
			for _, sc := range worlds {
				normCfg(&sc.Cfg)
				w, err := sut.NewWorld(sc.Cfg, sc.Pids, sc.Browsers)
				if err != nil {
					errs[sh] = err
					return
				}
				w.ApplySeed(sc.Seed)
				x := &explorer{family: *family, w: w, cfg: sc.Cfg, visited: map[[32]byte]int{}, maxNow: *maxNow, maxIss: *maxIss, shard: sh, shards: *shards}
				o := w.Project()
				cfg := sc.Cfg
				x.lines = append(x.lines, Line{Kind: "init", Name: sc.Name, Cfg: &cfg, Pids: sc.Pids, Browsers: sc.Browsers, Seed: sc.Seed, Iss: w.Issued(), Post: &o})
				for _, e := range sc.Steps { // the world's established part (validated like every other step)
					e := e
					e.Valid = true
					ro, rq, _ := w.Step(e)
					(&e).Norm()
					po := w.Project()
					x.lines = append(x.lines, Line{Kind: "ev", E: &e, Post: &po, Resp: &ro, Req: rq, Iss: w.Issued()})
				}
				d := *depth
				if *baseDepth > 0 && len(sc.Steps) == 0 && hasPre {
					d = *baseDepth
				}
				x.dfs(d, true)
				edges[sh] += x.edges
				all = append(all, x.lines)
			}
			errs[sh] = writeTraces(fmt.Sprintf("%s.%d.ndjson", *out, sh), all)
		}(sh)
	}
	wg.Wait()
	total := 0
	for sh, e := range errs {
		if e != nil {
			fmt.Fprintln(os.Stderr, "abdrive explore:", e)
			os.Exit(2)
		}
		total += edges[sh]
	}
	fmt.Printf("{\"family\":%q,\"depth\":%d,\"worlds\":%d,\"edges\":%d}\n", *family, *depth, len(worlds), total)
}

func init() { extra["explore"] = exploreCmd }
