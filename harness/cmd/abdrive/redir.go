package main

import (
	"bufio"
	"encoding/json"
	"flag"
	"fmt"
	"math/rand"
	"net/url"
	"os"
	"sort"
	"strings"
	"sync"

	"abverif/sut"
)

// C15: every symbol string enumerated by spec/RedirectGuard.tla is concretised
// and sent as the return target of a *successful* login on every flow that
// follows it; the real Location is compared with the spec's decision and
// classified by an independent browser-faithful oracle.

type rgRow struct {
	S       []string `json:"s"`
	Follows bool     `json:"follows"`
	Resolve string   `json:"resolve"`
}

var symPool = map[string][]string{
	"S": {"/"}, "B": {"\\"}, "C": {"\t", "\n", "\r"}, "X": {"\x01", "\x0b", "\x1f"}, "Z": {" "},
	"L": {"a", "https", "http", "javascript", "evil", "HTTPS", "data"}, "D": {"0", ".", "127.0.0.1", ".."},
	"K": {":"}, "Q": {"?"}, "H": {"#"}, "P": {"%", "%2f", "%5c", "%09"}, "A": {"@"},
}

func concretise(rng *rand.Rand, s []string, first bool) string {
	var b strings.Builder
	for _, c := range s {
		p := symPool[c]
		if first {
			b.WriteString(p[0])
		} else {
			b.WriteString(p[rng.Intn(len(p))])
		}
	}
	return b.String()
}

// browserResolve: WHATWG preprocessing + classification against the request origin.
func browserResolve(loc string) string {
	s := strings.TrimFunc(loc, func(r rune) bool { return r <= 0x20 })
	s = strings.NewReplacer("\t", "", "\n", "", "\r", "").Replace(s)
	// scheme?
	i := 0
	for i < len(s) && (s[i] >= 'a' && s[i] <= 'z' || s[i] >= 'A' && s[i] <= 'Z' || (i > 0 && (s[i] >= '0' && s[i] <= '9' || s[i] == '+' || s[i] == '-' || s[i] == '.'))) {
		i++
	}
	if i > 0 && i < len(s) && s[i] == ':' {
		scheme := strings.ToLower(s[:i])
		rest := s[i+1:]
		if scheme != "https" && scheme != "http" {
			return "offsite" // not even http(s): javascript:, data:, ...
		}
		r2 := strings.ReplaceAll(rest, "\\", "/")
		if scheme == "https" && !strings.HasPrefix(r2, "/") {
			return "samesite" // same special scheme as the base, no slashes: relative
		}
		if scheme == "https" && strings.HasPrefix(r2, "/") && !strings.HasPrefix(r2, "//") {
			return "samesite"
		}
		// other special scheme, or authority follows
		h := strings.TrimLeft(r2, "/")
		if hostOf(h) == "site.test" && scheme == "https" {
			return "samesite"
		}
		return "offsite"
	}
	r2 := strings.ReplaceAll(s, "\\", "/")
	if q := strings.IndexAny(r2, "?#"); q >= 0 && q < 2 {
		return "samesite"
	}
	if strings.HasPrefix(r2, "//") {
		if hostOf(strings.TrimLeft(r2, "/")) == "site.test" {
			return "samesite"
		}
		return "offsite"
	}
	return "samesite"
}

func hostOf(auth string) string {
	if i := strings.IndexAny(auth, "/?#"); i >= 0 {
		auth = auth[:i]
	}
	if i := strings.LastIndex(auth, "@"); i >= 0 {
		auth = auth[i+1:]
	}
	return strings.ToLower(auth)
}

type rgMismatch struct {
	S        []string `json:"s"`
	Concrete string   `json:"concrete"`
	Flow     string   `json:"flow"`
	Kind     string   `json:"kind"`
	Expected string   `json:"expected"`
	Observed string   `json:"observed"`
	Location string   `json:"location"`
}

type rgWorld struct {
	w      *sut.World
	def    string
	jsonMd bool
	locs   []string // every Location any response of the current flow carried
}

func (g *rgWorld) do(rq sut.Req) sut.Resp {
	r := g.w.In.Do(rq)
	if r.Location != "" {
		g.locs = append(g.locs, r.Location)
	}
	return r
}

func newRG(flow string, jsonMode bool) *rgWorld {
	mods := []string{"auth", "logout", "otp", "totp", "sms", "oauth2"}
	cfg := sut.Config{Modules: mods, LockAfter: 3, LockWindow: 2, LockDuration: 2, ExpireAfter: 2, RecoverTTL: 2, LogoutMethod: "DELETE", MWFail: "404", JSON: jsonMode}
	w, err := sut.NewWorld(cfg, sut.AllPids, []string{"b1"})
	if err != nil {
		panic(err)
	}
	w.ApplySeed([]sut.SeedUser{{Pid: "u1", Pw: 1, Conf: true, Otps: 0}, {Pid: "u2", Pw: 2, Conf: true, Totp: true, Rc: true}, {Pid: "u3", Pw: 3, Conf: true, Sms: 1}})
	return &rgWorld{w: w, jsonMd: jsonMode}
}

// try sends `redir` through one flow and returns the Location of the final (successful) response.
func (g *rgWorld) try(flow, redir string) (loc, def string, ok bool) {
	w := g.w
	g.locs = nil
	w.In.Sess.Clear("b1")
	q := "?redir=" + url.QueryEscape(redir)
	form := func(m map[string]string) map[string]string {
		if !g.jsonMd {
			m["redir"] = redir
		}
		return m
	}
	path := func(p string) string {
		if g.jsonMd {
			return p + q
		}
		return p
	}
	switch flow {
	case "password":
		r := g.do(sut.Req{Browser: "b1", Method: "POST", Path: path("/auth/login"), Form: form(map[string]string{"email": sut.PidPool["u1"], "password": sut.PwPool[0]})})
		return r.Location, "/ok/login", w.In.Sess.Get("b1")["uid"] != ""
	case "otp":
		// mint a fresh one-time password directly in storage
		u := w.In.Store.Peek(sut.PidPool["u1"])
		otp := fmt.Sprintf("otp-%d", rand.Int63())
		u.OTPs = sut.Hash512(otp)
		w.In.Store.Poke(u)
		r := g.do(sut.Req{Browser: "b1", Method: "POST", Path: path("/auth/otp/login"), Form: form(map[string]string{"email": sut.PidPool["u1"], "password": otp})})
		return r.Location, "/ok/login", w.In.Sess.Get("b1")["uid"] != ""
	case "totp":
		g.do(sut.Req{Browser: "b1", Method: "POST", Path: "/auth/login", Form: map[string]string{"email": sut.PidPool["u2"], "password": sut.PwPool[1]}})
		r := g.do(sut.Req{Browser: "b1", Method: "POST", Path: path("/auth/2fa/totp/validate"), Form: form(map[string]string{"code": w.TotpNow(1)})})
		return r.Location, "/ok/login", w.In.Sess.Get("b1")["uid"] != ""
	case "totp-f", "sms-f":
		// as totp-q / sms-q, but the return target travels in the BODY of the first step (a hidden form field)
		pid, pw := sut.PidPool["u2"], sut.PwPool[1]
		if flow == "sms-f" {
			pid, pw = sut.PidPool["u3"], sut.PwPool[2]
		}
		r0 := g.do(sut.Req{Browser: "b1", Method: "POST", Path: "/auth/login", Form: map[string]string{"email": pid, "password": pw, "redir": redir}})
		next := r0.Location
		if !strings.HasPrefix(next, "/auth/2fa/") {
			return "", "", false
		}
		code := ""
		if flow == "sms-f" {
			if len(r0.SMSs) == 0 {
				return "", "", false
			}
			code = r0.SMSs[0].Code
		} else {
			code = w.TotpNow(1)
		}
		r := g.do(sut.Req{Browser: "b1", Method: "POST", Path: next, Form: map[string]string{"code": code}})
		return r.Location, "/ok/login", w.In.Sess.Get("b1")["uid"] != ""
	case "totp-q", "sms-q":
		// the return target is given to the FIRST step (login form action carries it); the browser
		// then follows the hijack redirect, whose query repeats it, and posts the code there
		pid, pw := sut.PidPool["u2"], sut.PwPool[1]
		if flow == "sms-q" {
			pid, pw = sut.PidPool["u3"], sut.PwPool[2]
		}
		r0 := g.do(sut.Req{Browser: "b1", Method: "POST", Path: "/auth/login" + q, Form: map[string]string{"email": pid, "password": pw}})
		next := r0.Location
		if !strings.HasPrefix(next, "/auth/2fa/") {
			return "", "", false
		}
		code := ""
		if flow == "sms-q" {
			if len(r0.SMSs) == 0 {
				return "", "", false
			}
			code = r0.SMSs[0].Code
		} else {
			code = w.TotpNow(1)
		}
		r := g.do(sut.Req{Browser: "b1", Method: "POST", Path: next, Form: map[string]string{"code": code}})
		return r.Location, "/ok/login", w.In.Sess.Get("b1")["uid"] != ""
	case "sms":
		r0 := g.do(sut.Req{Browser: "b1", Method: "POST", Path: "/auth/login", Form: map[string]string{"email": sut.PidPool["u3"], "password": sut.PwPool[2]}})
		if len(r0.SMSs) == 0 {
			return "", "", false
		}
		r := g.do(sut.Req{Browser: "b1", Method: "POST", Path: path("/auth/2fa/sms/validate"), Form: form(map[string]string{"code": r0.SMSs[0].Code})})
		return r.Location, "/ok/login", w.In.Sess.Get("b1")["uid"] != ""
	case "oauth2-error":
		// the provider reports an error: the flow ends on the configured failure page, whatever was asked for
		g.do(sut.Req{Browser: "b1", Method: "GET", Path: "/auth/oauth2/pa" + q})
		st := w.In.Sess.Get("b1")["oauth2_state"]
		r := g.do(sut.Req{Browser: "b1", Method: "GET", Path: "/auth/oauth2/callback/pa?state=" + url.QueryEscape(st) + "&error=access_denied"})
		return r.Location, "/no/oauth2", r.Location != ""
	case "password-wrong":
		// a failed login never redirects anywhere
		r := g.do(sut.Req{Browser: "b1", Method: "POST", Path: path("/auth/login"), Form: form(map[string]string{"email": sut.PidPool["u1"], "password": "wrong"})})
		return r.Location, "", true
	case "oauth2":
		g.do(sut.Req{Browser: "b1", Method: "GET", Path: "/auth/oauth2/pa" + q})
		st := w.In.Sess.Get("b1")["oauth2_state"]
		r := g.do(sut.Req{Browser: "b1", Method: "GET", Path: "/auth/oauth2/callback/pa?state=" + url.QueryEscape(st) + "&code=" + url.QueryEscape("uid:x1")})
		return r.Location, "/ok/oauth2", w.In.Sess.Get("b1")["uid"] != ""
	}
	return "", "", false
}

func redirCmd(args []string) {
	fs := flag.NewFlagSet("redir", flag.ExitOnError)
	rowsF := fs.String("rows", "", "rows ndjson (from TLC)")
	out := fs.String("out", "", "result file")
	k := fs.Int("k", 2, "concretisations per string")
	seed := fs.Int64("seed", 1, "seed")
	flowsF := fs.String("flows", "password,password-json,otp,totp,sms,totp-q,sms-q,oauth2,oauth2-json,oauth2-error,oauth2-error-json,password-wrong,totp-f,sms-f", "flows")
	frac := fs.Float64("frac", 1.0, "fraction of strings for the non-password flows")
	workers := fs.Int("workers", 16, "workers")
	fs.Parse(args)
	f, err := os.Open(*rowsF)
	if err != nil {
		fmt.Fprintln(os.Stderr, err)
		os.Exit(2)
	}
	var rows []rgRow
	sc := bufio.NewScanner(f)
	sc.Buffer(make([]byte, 1<<20), 1<<26)
	for sc.Scan() {
		var r rgRow
		if err := json.Unmarshal(sc.Bytes(), &r); err != nil {
			fmt.Fprintln(os.Stderr, "row parse:", err)
			os.Exit(2)
		}
		rows = append(rows, r)
	}
	flows := strings.Split(*flowsF, ",")
	var mu sync.Mutex
	mism := []rgMismatch{}
	execs, oracleChecks, dead := 0, 0, 0
	var wg sync.WaitGroup
	chunk := (len(rows) + *workers - 1) / *workers
	for wi := 0; wi < *workers; wi++ {
		lo, hi := wi*chunk, (wi+1)*chunk
		if hi > len(rows) {
			hi = len(rows)
		}
		if lo >= hi {
			continue
		}
		wg.Add(1)
		go func(wi int, part []rgRow) {
			defer wg.Done()
			rng := rand.New(rand.NewSource(*seed*7919 + int64(wi)))
			worlds := map[string]*rgWorld{}
			for _, fl := range flows {
				worlds[fl] = newRG(strings.TrimSuffix(fl, "-json"), strings.HasSuffix(fl, "-json"))
			}
			le, lo2, ld := 0, 0, 0
			var lm []rgMismatch
			for _, r := range part {
				if len(r.S) == 0 {
					continue
				}
				for _, fl := range flows {
					if !strings.HasPrefix(fl, "password") && rng.Float64() > *frac {
						continue
					}
					for v := 0; v < *k; v++ {
						conc := concretise(rng, r.S, v == 0)
						loc, def, ok := worlds[fl].try(strings.TrimSuffix(fl, "-json"), conc)
						le++
						if !ok {
							ld++
							continue
						}
						// whatever the outcome, no response of the flow may send the browser off-site
						// (the provider's own authorisation URL is where the oauth2 start goes by design)
						for _, l := range worlds[fl].locs {
							if strings.HasPrefix(l, "http://pa.test/auth") {
								continue
							}
							if cls := browserResolve(l); cls != "samesite" {
								lm = append(lm, rgMismatch{r.S, conc, fl, "offsite-any", "samesite", cls, l})
							}
						}
						followed := loc != def
						// (a target given in the body of the first step of a two-step login is not carried to the second
						//  step today; only the off-site test applies to those flows)
						neverFollows := strings.HasPrefix(fl, "oauth2-error") || fl == "password-wrong" || fl == "totp-f" || fl == "sms-f"
						if neverFollows {
							// (these outcomes end on a fixed page today; were they to honour a safe target
							// the property would still hold, so only the off-site test above applies)
							continue
						}
						if followed != r.Follows {
							lm = append(lm, rgMismatch{r.S, conc, fl, "decision", fmt.Sprint(r.Follows), fmt.Sprint(followed), loc})
						}
						if followed {
							lo2++
							if cls := browserResolve(loc); cls != "samesite" {
								lm = append(lm, rgMismatch{r.S, conc, fl, "offsite", "samesite", cls, loc})
							}
						}

					}
				}
			}
			mu.Lock()
			execs += le
			oracleChecks += lo2
			dead += ld
			mism = append(mism, lm...)
			mu.Unlock()
		}(wi, rows[lo:hi])
	}
	wg.Wait()
	// cross-check of the two independent resolvers on the first concretisation of every string
	disagree := 0
	rng := rand.New(rand.NewSource(*seed))
	for _, r := range rows {
		conc := concretise(rng, r.S, true)
		if conc == "" {
			continue
		}
		if g := browserResolve(conc); g == "offsite" && r.Resolve == "samesite" {
			disagree++ // the spec's Resolve is worst-case: it may say offsite where a concretisation is same-site, never the reverse
		}
	}
	sort.Slice(mism, func(i, j int) bool {
		a, b := mism[i], mism[j]
		if x, y := strings.Join(a.S, ""), strings.Join(b.S, ""); x != y {
			return len(x) < len(y) || (len(x) == len(y) && x < y)
		}
		if a.Flow != b.Flow {
			return a.Flow < b.Flow
		}
		if a.Kind != b.Kind {
			return a.Kind < b.Kind
		}
		return a.Concrete < b.Concrete
	})
	if len(mism) > 300 {
		mism = mism[:300]
	}
	b, _ := json.Marshal(map[string]interface{}{"rows": len(rows), "executions": execs, "oracle_checks": oracleChecks, "dead": dead,
		"resolver_disagreements": disagree, "mismatches": mism})
	os.WriteFile(*out, b, 0o644)
}

func init() { extra["redir"] = redirCmd }
