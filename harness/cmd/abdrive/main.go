// abdrive executes abstract scenarios against the real authboss instance and
// writes ndjson traces (one init line per scenario, one line per step, each
// with the projected post-state) for validation by spec/Trace.tla.
package main

import (
	"bufio"
	"encoding/json"
	"flag"
	"fmt"
	"os"
	"runtime"
	"sync"

	"abverif/sut"
)

type Scenario struct {
	Name     string         `json:"name"`
	Cfg      sut.Config     `json:"cfg"`
	Pids     []string       `json:"pids"`
	Browsers []string       `json:"browsers"`
	Seed     []sut.SeedUser `json:"seed"`
	Steps    []sut.Event    `json:"steps"`
}

type Line struct {
	Kind     string         `json:"kind"`
	Name     string         `json:"name,omitempty"`
	Cfg      *sut.Config    `json:"cfg,omitempty"`
	Pids     []string       `json:"pids,omitempty"`
	Browsers []string       `json:"browsers,omitempty"`
	Seed     []sut.SeedUser `json:"seed,omitempty"`
	Iss      map[string]int `json:"iss,omitempty"`
	E        *sut.Event     `json:"e,omitempty"`
	Post     *sut.Obs       `json:"post,omitempty"`
	Resp     *sut.RespObs   `json:"resp,omitempty"`
	Req      *sut.Req       `json:"req,omitempty"`
}

func normCfg(c *sut.Config) {
	if c.Modules == nil {
		c.Modules = []string{}
	}
	if c.Whitelist == nil {
		c.Whitelist = []string{}
	}
	if c.LogoutMethod == "" {
		c.LogoutMethod = "DELETE"
	}
	if c.MWFail == "" {
		c.MWFail = "404"
	}
	if c.LockAfter == 0 {
		c.LockAfter = 3
	}
}

// runScenario executes one scenario and returns its trace lines.
func runScenario(sc Scenario) (lines []Line, err error) {
	defer func() {
		if p := recover(); p != nil {
			err = fmt.Errorf("harness panic in scenario %q: %v", sc.Name, p)
		}
	}()
	normCfg(&sc.Cfg)
	if sc.Seed == nil {
		sc.Seed = []sut.SeedUser{}
	}
	w, err := sut.NewWorld(sc.Cfg, sc.Pids, sc.Browsers)
	if err != nil {
		return nil, err
	}
	w.ApplySeed(sc.Seed)
	o := w.Project()
	cfg := sc.Cfg
	lines = append(lines, Line{Kind: "init", Name: sc.Name, Cfg: &cfg, Pids: sc.Pids, Browsers: sc.Browsers, Seed: sc.Seed, Iss: w.Issued(), Post: &o})
	for i := range sc.Steps {
		e := sc.Steps[i]
		ro, rq, _ := w.Step(e)
		(&e).Norm()
		po := w.Project()
		lines = append(lines, Line{Kind: "ev", E: &e, Post: &po, Resp: &ro, Req: rq, Iss: w.Issued()})
	}
	if !w.SamePeriod() {
		return nil, errPeriod
	}
	return lines, nil
}

var errPeriod = fmt.Errorf("totp period boundary crossed during scenario")

func runAll(scs []Scenario, workers int) ([][]Line, error) {
	out := make([][]Line, len(scs))
	errs := make([]error, len(scs))
	var wg sync.WaitGroup
	sem := make(chan struct{}, workers)
	for i := range scs {
		wg.Add(1)
		sem <- struct{}{}
		go func(i int) {
			defer wg.Done()
			defer func() { <-sem }()
			for attempt := 0; attempt < 3; attempt++ {
				out[i], errs[i] = runScenario(scs[i])
				if errs[i] != errPeriod {
					break
				}
			}
		}(i)
	}
	wg.Wait()
	for _, e := range errs {
		if e != nil {
			return nil, e
		}
	}
	return out, nil
}

func readScenarios(path string) ([]Scenario, error) {
	f, err := os.Open(path)
	if err != nil {
		return nil, err
	}
	defer f.Close()
	var scs []Scenario
	sc := bufio.NewScanner(f)
	sc.Buffer(make([]byte, 1<<20), 1<<28)
	for sc.Scan() {
		if len(sc.Bytes()) == 0 {
			continue
		}
		var s Scenario
		if err := json.Unmarshal(sc.Bytes(), &s); err != nil {
			return nil, fmt.Errorf("scenario parse: %v", err)
		}
		scs = append(scs, s)
	}
	return scs, sc.Err()
}

func writeTraces(path string, traces [][]Line) error {
	f, err := os.Create(path)
	if err != nil {
		return err
	}
	defer f.Close()
	bw := bufio.NewWriterSize(f, 1<<20)
	enc := json.NewEncoder(bw)
	for _, t := range traces {
		for _, l := range t {
			if err := enc.Encode(l); err != nil {
				return err
			}
		}
	}
	return bw.Flush()
}

func main() {
	if len(os.Args) < 2 {
		fmt.Fprintln(os.Stderr, "usage: abdrive run|random|... [flags]")
		os.Exit(2)
	}
	cmd := os.Args[1]
	if extraCommand(cmd, os.Args[2:]) {
		return
	}
	fs := flag.NewFlagSet(cmd, flag.ExitOnError)
	scen := fs.String("scen", "", "scenario file (ndjson)")
	out := fs.String("out", "", "output trace file")
	workers := fs.Int("workers", runtime.NumCPU(), "parallel scenarios")
	n := fs.Int("n", 100, "number of random scenarios")
	seed := fs.Int64("seed", 1, "random seed")
	depth := fs.Int("depth", 30, "steps per random scenario")
	family := fs.String("family", "core", "scenario family")
	fs.Parse(os.Args[2:])
	switch cmd {
	case "run":
		scs, err := readScenarios(*scen)
		if err != nil {
			fmt.Fprintln(os.Stderr, "abdrive:", err)
			os.Exit(2)
		}
		tr, err := runAll(scs, *workers)
		if err != nil {
			fmt.Fprintln(os.Stderr, "abdrive:", err)
			os.Exit(2)
		}
		if err := writeTraces(*out, tr); err != nil {
			fmt.Fprintln(os.Stderr, "abdrive:", err)
			os.Exit(2)
		}
	case "random":
		tr, err := randomTraces(*family, *n, *depth, *seed, *workers)
		if err != nil {
			fmt.Fprintln(os.Stderr, "abdrive:", err)
			os.Exit(2)
		}
		if err := writeTraces(*out, tr); err != nil {
			fmt.Fprintln(os.Stderr, "abdrive:", err)
			os.Exit(2)
		}
	default:
		fmt.Fprintln(os.Stderr, "abdrive: unknown command", cmd)
		os.Exit(2)
	}
}
