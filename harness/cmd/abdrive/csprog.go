package main

import (
	"bufio"
	"encoding/json"
	"flag"
	"fmt"
	"math/rand"
	"net/http"
	"net/http/httptest"
	"os"
	"reflect"
	"strings"

	"github.com/volatiletech/authboss/v3"
)

// C11: interprets every handler program enumerated by spec/ClientState.tla
// against the real ClientStateResponseWriter (through LoadClientStateMiddleware)
// with recording stores and a recording underlying writer sharing one sequence.

type csOp struct {
	Op string `json:"op"`
	K  string `json:"k"`
}

type csEv struct {
	Kind string `json:"kind"`
	Key  string `json:"key"`
	Val  string `json:"val"`
}

type csWire struct {
	T   string `json:"t"`
	Evs []csEv `json:"evs"`
}

type csRow struct {
	Prog []csOp `json:"prog"`
	Out  struct {
		Wire  []csWire `json:"wire"`
		Reads []string `json:"reads"`
	} `json:"out"`
}

type csState map[string]string

func (c csState) Get(k string) (string, bool) { v, ok := c[k]; return v, ok }

type csStore struct {
	name string
	wire *[]csWire
}

func (s csStore) ReadState(*http.Request) (authboss.ClientState, error) {
	return csState{"k1": s.name + ":i1"}, nil
}

func (s csStore) WriteState(w http.ResponseWriter, st authboss.ClientState, evs []authboss.ClientStateEvent) error {
	rec := csWire{T: strings.ToUpper(s.name), Evs: []csEv{}}
	for _, e := range evs {
		k := map[authboss.ClientStateEventKind]string{authboss.ClientStateEventPut: "put", authboss.ClientStateEventDel: "del", authboss.ClientStateEventDelAll: "delall"}[e.Kind]
		rec.Evs = append(rec.Evs, csEv{k, e.Key, e.Value})
	}
	*s.wire = append(*s.wire, rec)
	return nil
}

type csUnder struct {
	*httptest.ResponseRecorder
	wire *[]csWire
}

func (u csUnder) WriteHeader(c int) {
	*u.wire = append(*u.wire, csWire{T: "H", Evs: []csEv{}})
	u.ResponseRecorder.WriteHeader(c)
}
func (u csUnder) Write(b []byte) (int, error) {
	*u.wire = append(*u.wire, csWire{T: "B", Evs: []csEv{}})
	return u.ResponseRecorder.Write(b)
}

// the two supported wrapper kinds
type wrapU struct{ http.ResponseWriter }

func (w wrapU) UnderlyingResponseWriter() http.ResponseWriter { return w.ResponseWriter }

type wrapW struct{ http.ResponseWriter }

func (w wrapW) Unwrap() http.ResponseWriter { return w.ResponseWriter }

func runProgram(prog []csOp, wraps string) (wire []csWire, reads []string, panicked string) {
	wire, reads = []csWire{}, []string{}
	ab := authboss.New()
	ab.Config.Storage.SessionState = csStore{"s", &wire}
	ab.Config.Storage.CookieState = csStore{"c", &wire}
	ab.Config.Core.Logger = nopLogger{}
	h := ab.LoadClientStateMiddleware(http.HandlerFunc(func(w http.ResponseWriter, r *http.Request) {
		for _, c := range wraps {
			if c == 'U' {
				w = wrapU{w}
			} else {
				w = wrapW{w}
			}
		}
		for _, o := range prog {
			switch o.Op {
			case "PutS":
				authboss.PutSession(w, o.K, "v-"+o.K)
			case "DelS":
				authboss.DelSession(w, o.K)
			case "DelAllS":
				authboss.DelAllSession(w, []string{"wl"})
			case "DelKnownS":
				authboss.DelKnownSession(w)
			case "DelKnownC":
				authboss.DelKnownCookie(w)
			case "PutC":
				authboss.PutCookie(w, o.K, "v-"+o.K)
			case "DelC":
				authboss.DelCookie(w, o.K)
			case "WriteHeader":
				w.WriteHeader(200)
			case "Write":
				w.Write([]byte("x"))
			case "ReadS":
				v, ok := authboss.GetSession(r, o.K)
				if !ok {
					v = "absent"
				}
				reads = append(reads, v)
			case "ReadC":
				v, ok := authboss.GetCookie(r, o.K)
				if !ok {
					v = "absent"
				}
				reads = append(reads, v)
			}
		}
	}))
	func() {
		defer func() {
			if p := recover(); p != nil {
				panicked = fmt.Sprint(p)
			}
		}()
		rec := httptest.NewRecorder()
		h.ServeHTTP(csUnder{rec, &wire}, httptest.NewRequest("GET", "/", nil))
	}()
	return
}

type nopLogger struct{}

func (nopLogger) Info(string)  {}
func (nopLogger) Error(string) {}

func csprog(args []string) {
	fs := flag.NewFlagSet("csprog", flag.ExitOnError)
	rowsF := fs.String("rows", "", "rows ndjson (from TLC)")
	out := fs.String("out", "", "result file")
	fs.Int64("seed", 1, "seed")
	fs.Parse(args)
	f, err := os.Open(*rowsF)
	if err != nil {
		fmt.Fprintln(os.Stderr, err)
		os.Exit(2)
	}
	type mismatch struct {
		Prog     []csOp      `json:"prog"`
		Wraps    string      `json:"wraps"`
		Field    string      `json:"field"`
		Expected interface{} `json:"expected"`
		Observed interface{} `json:"observed"`
	}
	mism := []mismatch{}
	rows, execs := 0, 0
	sc := bufio.NewScanner(f)
	sc.Buffer(make([]byte, 1<<20), 1<<26)
	for sc.Scan() {
		var r csRow
		if err := json.Unmarshal(sc.Bytes(), &r); err != nil {
			fmt.Fprintln(os.Stderr, "row parse:", err)
			os.Exit(2)
		}
		rows++
		for _, wraps := range []string{"", "U", "W", "UW", "WU"} {
			wire, reads, pan := runProgram(r.Prog, wraps)
			execs++
			if pan != "" {
				mism = append(mism, mismatch{r.Prog, wraps, "panic", nil, pan})
				continue
			}
			if !reflect.DeepEqual(normWire(wire), normWire(r.Out.Wire)) {
				mism = append(mism, mismatch{r.Prog, wraps, "wire", r.Out.Wire, wire})
			}
			if !reflect.DeepEqual(append([]string{}, reads...), append([]string{}, r.Out.Reads...)) {
				mism = append(mism, mismatch{r.Prog, wraps, "reads", r.Out.Reads, reads})
			}
			if len(mism) > 50 {
				break
			}
		}
	}
	b, _ := json.Marshal(map[string]interface{}{"rows": rows, "executions": execs, "mismatches": mism})
	os.WriteFile(*out, b, 0o644)
}

func normWire(w []csWire) []csWire {
	out := []csWire{}
	for _, x := range w {
		if x.Evs == nil {
			x.Evs = []csEv{}
		}
		out = append(out, x)
	}
	return out
}

// random long programs (thorough tier): generated here, judged by the same
// reference semantics re-implemented... no: they are written out as rows for
// TLC to evaluate (spec/ClientState.tla, Result) and compared afterwards.
func csrandom(args []string) {
	fs := flag.NewFlagSet("csrandom", flag.ExitOnError)
	out := fs.String("out", "", "programs file (ndjson of op lists)")
	n := fs.Int("n", 100, "programs")
	ln := fs.Int("len", 40, "max length")
	seed := fs.Int64("seed", 1, "seed")
	fs.Parse(args)
	rng := rand.New(rand.NewSource(*seed))
	ops := []csOp{}
	for _, o := range []string{"PutS", "DelS", "ReadS"} {
		for _, k := range []string{"k1", "uid"} {
			ops = append(ops, csOp{o, k})
		}
	}
	for _, o := range []string{"PutC", "DelC", "ReadC"} {
		for _, k := range []string{"k1", "rm"} {
			ops = append(ops, csOp{o, k})
		}
	}
	for _, o := range []string{"DelAllS", "DelKnownS", "DelKnownC", "WriteHeader", "Write"} {
		ops = append(ops, csOp{o, "-"})
	}
	f, _ := os.Create(*out)
	defer f.Close()
	for i := 0; i < *n; i++ {
		l := 1 + rng.Intn(*ln)
		p := make([]csOp, l)
		for j := range p {
			p[j] = ops[rng.Intn(len(ops))]
		}
		b, _ := json.Marshal(p)
		f.Write(append(b, '\n'))
	}
}

func init() { extra["csprog"] = csprog; extra["csrandom"] = csrandom }
