package main

import (
	"bufio"
	"encoding/json"
	"flag"
	"fmt"
	"math/rand"
	"os"
	"strings"

	"github.com/volatiletech/authboss/v3/defaults"
)

// C19 policy clause: every (rule vector, class string) row of spec/Rules.tla is
// evaluated by the real defaults.Rules on concretisations of the class string.

type ruleVec struct {
	MinLength       int  `json:"minLength"`
	MaxLength       int  `json:"maxLength"`
	MinLetters      int  `json:"minLetters"`
	MinUpper        int  `json:"minUpper"`
	MinLower        int  `json:"minLower"`
	MinNumeric      int  `json:"minNumeric"`
	MinSymbols      int  `json:"minSymbols"`
	AllowWhitespace bool `json:"allowWhitespace"`
}

type ruleRow struct {
	R       ruleVec  `json:"r"`
	S       []string `json:"s"`
	Accepts bool     `json:"accepts"`
}

var clsPool = map[string][]string{
	"U": {"A", "Q", "Z"}, "L": {"a", "m", "z"}, "D": {"0", "5", "9"}, "Y": {"!", "-", "_", "$", "~", "\x00", "."},
	"W": {" ", "\t", "\n"}, "M": {"é", "ß", "ñ"},
}

func rulesCmd(args []string) {
	fs := flag.NewFlagSet("rules", flag.ExitOnError)
	rowsF := fs.String("rows", "", "rows ndjson (from TLC)")
	out := fs.String("out", "", "result file")
	k := fs.Int("k", 2, "concretisations per row")
	seed := fs.Int64("seed", 1, "seed")
	fs.Parse(args)
	f, err := os.Open(*rowsF)
	if err != nil {
		fmt.Fprintln(os.Stderr, err)
		os.Exit(2)
	}
	rng := rand.New(rand.NewSource(*seed))
	type mm struct {
		Row      ruleRow  `json:"row"`
		Concrete string   `json:"concrete"`
		Observed bool     `json:"observed"`
		Errors   []string `json:"errors"`
	}
	mism := []mm{}
	rows, execs, acc := 0, 0, 0
	sc := bufio.NewScanner(f)
	sc.Buffer(make([]byte, 1<<20), 1<<26)
	for sc.Scan() {
		var r ruleRow
		if err := json.Unmarshal(sc.Bytes(), &r); err != nil {
			fmt.Fprintln(os.Stderr, "row parse:", err)
			os.Exit(2)
		}
		rows++
		rule := defaults.Rules{FieldName: "password", MinLength: r.R.MinLength, MaxLength: r.R.MaxLength, MinLetters: r.R.MinLetters,
			MinUpper: r.R.MinUpper, MinLower: r.R.MinLower, MinNumeric: r.R.MinNumeric, MinSymbols: r.R.MinSymbols, AllowWhitespace: r.R.AllowWhitespace}
		for v := 0; v < *k; v++ {
			var b strings.Builder
			for _, c := range r.S {
				p := clsPool[c]
				if v == 0 {
					b.WriteString(p[0])
				} else {
					b.WriteString(p[rng.Intn(len(p))])
				}
			}
			errs := rule.Errors(b.String())
			ok := errs == nil
			execs++
			if ok {
				acc++
			}
			if ok != r.Accepts || rule.IsValid(b.String()) != r.Accepts {
				es := []string{}
				for _, e := range errs {
					es = append(es, e.Error())
				}
				if len(mism) < 100 {
					mism = append(mism, mm{r, b.String(), ok, es})
				}
			}
		}
	}
	b, _ := json.Marshal(map[string]interface{}{"rows": rows, "executions": execs, "accepted": acc, "mismatches": mism})
	os.WriteFile(*out, b, 0o644)
}

func init() { extra["rules"] = rulesCmd }
