package main

import (
	"bufio"
	"encoding/json"
	"flag"
	"fmt"
	"os"
	"strings"

	"abverif/sut"

	"github.com/volatiletech/authboss/v3"
)

// Codec clauses of C07/C14: the rows of spec/Codecs.tla against the real code.

type codecRow struct {
	Kind string   `json:"kind"`
	P    []string `json:"p"`
	U    []string `json:"u"`
	N    []string `json:"n"`
}

func codecsCmd(args []string) {
	fs := flag.NewFlagSet("codecs", flag.ExitOnError)
	rowsF := fs.String("rows", "", "rows ndjson (from TLC)")
	out := fs.String("out", "", "result file")
	k := fs.Int("k", 8, "remember tokens per pid")
	fs.Int64("seed", 1, "seed")
	fs.Parse(args)
	f, err := os.Open(*rowsF)
	if err != nil {
		fmt.Fprintln(os.Stderr, err)
		os.Exit(2)
	}
	type mm struct {
		Kind     string `json:"kind"`
		Input    string `json:"input"`
		Expected string `json:"expected"`
		Observed string `json:"observed"`
	}
	mism := []mm{}
	pids, toks, semis := 0, 0, 0
	seenPID := map[string]string{}
	tokPids := map[string]bool{}
	sc := bufio.NewScanner(f)
	sc.Buffer(make([]byte, 1<<20), 1<<26)
	for sc.Scan() {
		var r codecRow
		if err := json.Unmarshal(sc.Bytes(), &r); err != nil {
			fmt.Fprintln(os.Stderr, "row parse:", err)
			os.Exit(2)
		}
		switch r.Kind {
		case "pid":
			prov, uid := strings.Join(r.P, ""), strings.Join(r.U, "")
			pid := authboss.MakeOAuth2PID(prov, uid)
			pids++
			if prev, ok := seenPID[pid]; ok && prev != prov+"\x00"+uid {
				mism = append(mism, mm{"pid-injective", prov + "|" + uid, "distinct pid", pid})
			}
			seenPID[pid] = prov + "\x00" + uid
			p2, u2, err := authboss.ParseOAuth2PID(pid)
			if err != nil || p2 != prov || u2 != uid {
				mism = append(mism, mm{"pid-roundtrip", pid, prov + "|" + uid, fmt.Sprintf("%s|%s err=%v", p2, u2, err)})
			}
		case "tok":
			tokPids[strings.Join(r.P, "")] = true
		}
	}
	// remember cookie: a real login with rm=true, then the cookie alone must authenticate exactly that pid
	for p := range tokPids {
		pid := strings.ReplaceAll(p, "a", "x") + "@x.io"
		if strings.HasSuffix(p, ";") || strings.HasPrefix(p, ";") {
			pid = p // raw, separator at the edges
		}
		cfg := sut.Config{Modules: []string{"auth", "remember", "logout"}, LockAfter: 3, LockWindow: 2, LockDuration: 2, ExpireAfter: 2, RecoverTTL: 2, LogoutMethod: "DELETE", MWFail: "404"}
		w, err := sut.NewWorld(cfg, sut.AllPids, []string{"b1", "b2"})
		if err != nil {
			panic(err)
		}
		w.SeedRaw(pid, sut.PwPool[0])
		for i := 0; i < *k; i++ {
			w.In.Sess.Clear("b1")
			w.In.Cook.Clear("b1")
			r1 := w.In.Do(sut.Req{Browser: "b1", Method: "POST", Path: "/auth/login", Form: map[string]string{"email": pid, "password": sut.PwPool[0], "rm": "true"}})
			ck := w.In.Cook.Get("b1")["rm"]
			if ck == "" {
				mism = append(mism, mm{"tok-issue", pid, "cookie issued", fmt.Sprintf("status %d", r1.Status)})
				break
			}
			if sut.RawHasSemicolon(ck, len(pid)) {
				semis++
			}
			w.In.Sess.Clear("b1")
			r2 := w.In.Do(sut.Req{Browser: "b1", Method: "GET", Path: "/probe"})
			toks++
			got := ""
			if r2.Probe != nil {
				got = r2.Probe.User
			}
			if got != pid {
				mism = append(mism, mm{"tok-roundtrip", pid, pid, got})
				break
			}
		}
	}
	b, _ := json.Marshal(map[string]interface{}{"pid_rows": pids, "cookie_pids": len(tokPids), "cookie_round_trips": toks,
		"nonces_with_separator": semis, "mismatches": mism})
	os.WriteFile(*out, b, 0o644)
}

func init() { extra["codecs"] = codecsCmd }
