package main

import (
	"math/rand"

	"abverif/sut"
)

// Random, state-aware generation of abstract scenarios. The generator only
// chooses *what to try*; whether it works is decided by the real code and
// judged by the specification.

type genCtx struct {
	rng *rand.Rand
	w   *sut.World
	cfg sut.Config
	sc  *Scenario
}

func (g *genCtx) pick(xs ...string) string { return xs[g.rng.Intn(len(xs))] }
func (g *genCtx) chance(p float64) bool    { return g.rng.Float64() < p }

func (g *genCtx) pid() string     { return g.sc.Pids[g.rng.Intn(len(g.sc.Pids))] }
func (g *genCtx) browser() string { return g.sc.Browsers[g.rng.Intn(len(g.sc.Browsers))] }

// idOrJunk picks an existing id (biased to the newest), or 0 / -1 (junk).
func (g *genCtx) idOrJunk(n int, pJunk float64) int {
	if n == 0 || g.chance(pJunk) {
		if g.chance(0.3) {
			return 0
		}
		return -1
	}
	if g.chance(0.6) {
		return n
	}
	return 1 + g.rng.Intn(n)
}

var pwJunk = []string{"wrong", "empty", "hash", "long", "nul", "prefix", "own:lead", "own:trail", "own:nl", "own:tab", "own:case", "own:twice"}
var tokJunk = []string{"empty", "flip:0", "flip:255", "flip:256", "flip:511", "flip:37", "flip:300", "trunc", "ext", "trail", "splice", "stored", "zero", "garbage", "missing",
	"sfx:dot", "sfx:amp", "sfx:space", "sfx:nul", "sfx:dup", "sfx:paren", "pfx:space"}

func (g *genCtx) pw(pRight float64, right int) (int, string) {
	if right >= 1 && g.chance(pRight) {
		return right, "none"
	}
	if g.chance(0.5) {
		return 1 + g.rng.Intn(len(sut.PwPool)), "none"
	}
	return -1, pwJunk[g.rng.Intn(len(pwJunk))]
}

func modsFrom(rng *rand.Rand, must []string, opt []string, pOpt float64) []string {
	ms := append([]string(nil), must...)
	for _, m := range opt {
		if rng.Float64() < pOpt {
			ms = append(ms, m)
		}
	}
	rng.Shuffle(len(ms), func(i, j int) { ms[i], ms[j] = ms[j], ms[i] })
	return ms
}

func has(ms []string, m string) bool {
	for _, x := range ms {
		if x == m {
			return true
		}
	}
	return false
}

// familyConfig draws one configuration + seed for a family.
func familyConfig(family string, rng *rand.Rand) Scenario {
	sc := Scenario{Pids: []string{"u1", "u2", "g1"}, Browsers: []string{"b1", "b2"}}
	c := sut.Config{LockAfter: 1 + rng.Intn(3), LockWindow: 2 + rng.Intn(2), LockDuration: 2 + rng.Intn(3),
		ExpireAfter: 2 + rng.Intn(2), RecoverTTL: 2 + rng.Intn(2), RecoverLogin: rng.Intn(2) == 0,
		LogoutMethod: []string{"DELETE", "POST", "GET"}[rng.Intn(3)], MWReqs: rng.Intn(4),
		MWFail: []string{"404", "401", "redirect"}[rng.Intn(3)], ErrWrites: rng.Intn(2) == 0,
		TotpOneTime: rng.Intn(2) == 0, FoldPid: rng.Intn(3) == 0, RegNoWhitelist: rng.Intn(3) == 0, JSON: rng.Intn(4) == 0, AppHandles2FA: rng.Intn(3) == 0, SelfAuth: rng.Intn(3) == 0}
	switch rng.Intn(3) {
	case 1:
		c.Whitelist = []string{"app1"}
	case 2:
		c.Whitelist = []string{"app1", "app2"}
	}
	switch family {
	case "core":
		ms := modsFrom(rng, []string{"auth", "logout"}, []string{"lock", "confirm", "register", "recover"}, 0.7)
		if rng.Intn(2) == 0 {
			ms = append(ms, "remember")
		} else if rng.Intn(2) == 0 {
			ms = append(ms, "expire")
		}
		rng.Shuffle(len(ms), func(i, j int) { ms[i], ms[j] = ms[j], ms[i] })
		c.Modules = ms
		sc.Seed = []sut.SeedUser{{Pid: "u1", Pw: 1, Conf: rng.Intn(4) != 0}}
		if rng.Intn(3) != 0 {
			sc.Seed = append(sc.Seed, sut.SeedUser{Pid: "u2", Pw: 2, Conf: rng.Intn(4) != 0})
		}
		if has(ms, "remember") && rng.Intn(2) == 0 {
			sc.Pids = append(sc.Pids, "u3")
			sc.Seed = append(sc.Seed, sut.SeedUser{Pid: "u3", Pw: 3, Conf: true})
		}
	case "full", "twofa", "oauth":
		must := []string{"auth", "logout"}
		opt := []string{"lock", "confirm", "register", "recover", "otp", "oauth2", "totp", "sms", "recovery"}
		pOpt := 0.6
		if family == "twofa" {
			must = []string{"auth", "logout", "totp", "sms", "recovery"}
			opt = []string{"lock", "confirm", "recover", "otp"}
		}
		if family == "oauth" {
			must = []string{"auth", "logout", "oauth2"}
			opt = []string{"lock", "confirm", "register"}
		}
		ms := modsFrom(rng, must, opt, pOpt)
		switch rng.Intn(3) {
		case 0:
			ms = append(ms, "remember")
		case 1:
			ms = append(ms, "expire")
		}
		rng.Shuffle(len(ms), func(i, j int) { ms[i], ms[j] = ms[j], ms[i] })
		c.Modules = ms
		c.EmailAuth = rng.Intn(3) == 0
		u1 := sut.SeedUser{Pid: "u1", Pw: 1, Conf: rng.Intn(5) != 0}
		u2 := sut.SeedUser{Pid: "u2", Pw: 2, Conf: rng.Intn(5) != 0}
		if has(ms, "totp") && rng.Intn(2) == 0 {
			u1.Totp, u1.Rc = true, true
		}
		if has(ms, "sms") {
			switch rng.Intn(3) {
			case 0:
				u2.Sms, u2.Rc = 1, true
			case 1:
				if !u1.Totp {
					u1.Sms, u1.Rc = 2, true
				}
			}
		}
		if has(ms, "otp") {
			u1.Otps = rng.Intn(3)
			u2.Otps = rng.Intn(6)
		}
		sc.Seed = []sut.SeedUser{u1, u2}
	}
	sc.Cfg = c
	return sc
}

// nextEvent draws the next abstract step given the current world.
func (g *genCtx) nextEvent(family string) sut.Event {
	o := g.w.Project()
	iss := g.w.Issued()
	c := g.cfg
	e := sut.Event{}
	acts := []string{"LoginPost", "LoginPost", "LoginPost", "Probe", "Probe", "Logout", "Tick", "Tick"}
	if c.Has("register") {
		acts = append(acts, "RegisterPost")
	}
	if c.Has("confirm") {
		acts = append(acts, "ConfirmGet", "ConfirmGet", "RestartConfirm")
	}
	if c.Has("recover") {
		acts = append(acts, "RecoverStart", "RecoverEnd", "RecoverEnd")
	}
	if c.Has("lock") {
		acts = append(acts, "AdminLock", "AdminUnlock")
	}
	if c.Has("remember") {
		acts = append(acts, "StealCookie", "DropSession", "JunkCookie")
	}
	if c.Has("expire") {
		acts = append(acts, "AppKey", "Probe", "Tick")
	}
	if c.Has("otp") {
		acts = append(acts, "OtpLoginPost", "OtpLoginPost", "OtpAdd", "OtpAdd", "OtpClear")
	}
	if c.Has("oauth2") {
		acts = append(acts, "OAuthStart", "OAuthStart", "OAuthCallback", "OAuthCallback", "OAuthCallback")
	}
	if c.Has("totp") {
		acts = append(acts, "TotpSetup", "TotpSetupGet", "TotpConfirm", "TotpConfirm", "TotpRemove", "TotpValidate", "TotpValidate", "TotpValidate")
	}
	if c.Has("sms") {
		acts = append(acts, "SmsSetup", "SmsSetupGet", "SmsConfirm", "SmsConfirm", "SmsRemove", "SmsValidate", "SmsValidate", "SmsValidate")
	}
	if c.Has("recovery") {
		acts = append(acts, "RecoveryRegen")
	}
	if c.EmailAuth && (c.Has("totp") || c.Has("sms")) {
		acts = append(acts, "EmailVerifyStart", "EmailVerifyEnd", "EmailVerifyEnd")
	}
	acts = append(acts, "UpdatePassword", "AppKey", "Get", "Get", "BadMethod")
	e.Act = acts[g.rng.Intn(len(acts))]
	e.B = g.browser()
	existing := []string{}
	for _, p := range g.sc.Pids {
		if o.Db[p].Ex {
			existing = append(existing, p)
		}
	}
	anyEx := func() string {
		if len(existing) == 0 {
			return "u1"
		}
		return existing[g.rng.Intn(len(existing))]
	}
	switch e.Act {
	case "LoginPost":
		e.Pid = g.pid()
		if c.Has("oauth2") && g.chance(0.2) {
			e.Pid = g.pick("o_pa_x", "o_pa_y", "o_pb_x") // password login against a password-less (OAuth2) account
		}
		e.Pw, e.Junk = g.pw(0.6, o.Db[e.Pid].Pw)
		if o.Db[e.Pid].Pw == 0 && g.chance(0.5) {
			e.Pw, e.Junk = -1, g.pick("empty", "hash", "wrong")
		}
		e.Rm = g.chance(0.4)
		if g.chance(0.2) {
			e.Redir = "redir"
		}
	case "Probe":
		if g.chance(0.4) {
			e.K = g.pick("alt1", "alt2", "alt3", "bare", "bare")
		}
	case "Logout":
		e.Method = c.LogoutMethod
		if g.chance(0.25) {
			e.Method = g.pick("GET", "POST", "DELETE", "HEAD", "PUT", "OPTIONS")
		}
	case "Tick":
		e.D = 1 + g.rng.Intn(4)
		if g.chance(0.3) {
			// single units: together with whole ticks they land on either side of a threshold, to the unit
			e.Act = "Tock"
			e.D = []int{1, 1, 4, 5, 6}[g.rng.Intn(5)]
		}
	case "RegisterPost":
		e.Pid = g.pid()
		e.Pw = 1 + g.rng.Intn(len(sut.PwPool))
		e.Valid = true
		if g.chance(0.3) {
			e.Valid = false
			e.Junk = g.pick("weak", "mismatch", "nopw", "noconfirm", "bademail")
		} else if g.chance(0.3) {
			e.Junk = "extra"
		}
	case "ConfirmGet":
		e.Tok = g.idOrJunk(iss["ct"], 0.4)
		if e.Tok <= 0 {
			e.Tok = -1
			e.Junk = tokJunk[g.rng.Intn(len(tokJunk))]
		}
	case "RestartConfirm", "AdminLock", "AdminUnlock":
		e.Pid = anyEx()
	case "RecoverStart":
		e.Pid = g.pid()
		e.Valid = true
		if g.chance(0.1) {
			e.Valid, e.Junk = false, "bademail"
		} else if c.FoldPid && g.chance(0.5) {
			e.Junk = "case" // a spelling the normalising store resolves to the same account
		}
	case "RecoverEnd":
		e.Tok = g.idOrJunk(iss["rt"], 0.4)
		if e.Tok <= 0 {
			e.Tok = -1
			e.Junk = tokJunk[g.rng.Intn(len(tokJunk)-1)]
		}
		e.Pw = 1 + g.rng.Intn(len(sut.PwPool))
		e.Valid = true
		if g.chance(0.15) {
			e.Valid = false
			if e.Junk == "" || e.Junk == "none" {
				e.Junk = g.pick("weak", "mismatch")
			}
		}
	case "UpdatePassword":
		e.Pid = anyEx()
		e.Pw = 1 + g.rng.Intn(len(sut.PwPool))
	case "StealCookie":
		e.K = g.browser()
	case "JunkCookie":
		e.Junk = g.pick("garbage", "nosep", "forged", "hash")
	case "AppKey":
		e.K = g.pick("app1", "app2")
	case "BadMethod":
		e.Method = g.pick("HEAD", "PUT", "PATCH", "OPTIONS")
		e.K = g.pick("logout", "login", "register", "recover", "otpAdd", "totpRemove", "smsValidate", "recoveryRegen")
	case "Get":
		e.K = g.pick("login", "register", "recover", "recoverEnd", "otpLogin", "otpAdd", "otpClear", "totpConfirm", "totpRemove",
			"totpValidate", "smsConfirm", "smsRemove", "smsValidate", "recoveryRegen", "totpEmailVerify", "smsEmailVerify")
	case "OtpLoginPost":
		e.Pid = g.pid()
		e.Tok = g.idOrJunk(iss["otp"], 0.3)
		if e.Tok <= 0 {
			e.Tok = -1
			e.Junk = g.pick("empty", "garbage", "hash", "own:lead", "own:trail", "own:nl", "own:case", "own:twice")
		}
		if ot := o.Db[e.Pid].Otps; len(ot) > 0 && g.chance(0.5) {
			e.Tok = ot[g.rng.Intn(len(ot))]
			e.Junk = ""
		}
		e.Rm = g.chance(0.3)
	case "OAuthStart":
		e.Prov = g.pick("pa", "pa", "pb")
		e.Rm = g.chance(0.4)
		if g.chance(0.3) {
			e.Redir = "redir"
		}
	case "OAuthCallback":
		e.Prov = g.pick("pa", "pa", "pb")
		e.Outcome = g.pick("x", "x", "y", "error", "exchangeFail")
		e.Tok = g.idOrJunk(iss["os"], 0.25)
		if st := o.Sess[e.B].OState; st > 0 && g.chance(0.6) {
			e.Tok = st
		}
		if e.Tok <= 0 {
			e.Tok = -1
			e.Junk = g.pick("empty", "garbage", "nostate")
		}
	case "TotpConfirm", "TotpRemove", "TotpValidate":
		// which secret the code is generated from: the relevant one, or another
		rel := o.Sess[e.B].TotpSetup
		if e.Act != "TotpConfirm" {
			who := o.Sess[e.B].Uid
			if who == "none" {
				who = o.Sess[e.B].TotpPend
			}
			if who != "none" {
				rel = o.Db[who].Totp
			}
		}
		e.Tok = rel
		if rel <= 0 || g.chance(0.2) {
			e.Tok = g.idOrJunk(iss["ts"], 0.2)
		}
		e.Code = []int{-1, 0, 1, 3}[g.rng.Intn(4)] // junk, empty, the two valid codes
		if g.chance(0.5) {
			e.Code = []int{1, 3}[g.rng.Intn(2)]
		}
		if e.Act != "TotpConfirm" && g.chance(0.25) {
			g.rcArgs(&e, o)
		} else if e.Code >= 1 && g.chance(0.15) {
			e.Junk = "space"
		}
		if e.Act == "TotpValidate" && g.chance(0.2) {
			e.Redir = "redir"
		}
	case "SmsSetup":
		e.Phone = g.rng.Intn(3)
	case "SmsConfirm", "SmsRemove", "SmsValidate":
		e.Code = o.Sess[e.B].SmsCode
		switch {
		case g.chance(0.25):
			e.Code = 0 // ask for a (re)send
		case g.chance(0.25):
			e.Code = g.idOrJunk(iss["sc"], 0.4)
			if e.Code == 0 {
				e.Code = -1
			}
		}
		if e.Code < 0 {
			e.Junk = "garbage"
		}
		if e.Act != "SmsConfirm" && g.chance(0.25) {
			g.rcArgs(&e, o)
		}
		if e.Act == "SmsValidate" && g.chance(0.2) {
			e.Redir = "redir"
		}
	case "EmailVerifyStart":
		e.Kind = g.pick("totp", "sms")
	case "EmailVerifyEnd":
		e.Kind = g.pick("totp", "sms")
		e.Tok = o.Sess[e.B].TfaTok
		if e.Tok <= 0 || g.chance(0.3) {
			e.Tok = g.idOrJunk(iss["tt"], 0.5)
			if e.Tok <= 0 {
				e.Tok = -1
				e.Junk = g.pick("empty", "garbage", "missing")
			}
		}
	}
	return e
}

func randomScenario(family string, depth int, seed int64) (lines []Line, err error) {
	rng := rand.New(rand.NewSource(seed))
	for attempt := 0; attempt < 3; attempt++ {
		lines, err = randomScenarioOnce(family, depth, rng)
		if err != errPeriod {
			return
		}
	}
	return
}

func randomScenarioOnce(family string, depth int, rng *rand.Rand) (lines []Line, err error) {
	defer func() {
		if p := recover(); p != nil {
			err = panicErr(p)
		}
	}()
	sc := familyConfig(family, rng)
	normCfg(&sc.Cfg)
	if sc.Seed == nil {
		sc.Seed = []sut.SeedUser{}
	}
	w, err := sut.NewWorld(sc.Cfg, sc.Pids, sc.Browsers)
	if err != nil {
		return nil, err
	}
	w.ApplySeed(sc.Seed)
	g := &genCtx{rng: rng, w: w, cfg: sc.Cfg, sc: &sc}
	o := w.Project()
	cfg := sc.Cfg
	lines = append(lines, Line{Kind: "init", Name: "random", Cfg: &cfg, Pids: sc.Pids, Browsers: sc.Browsers, Seed: sc.Seed, Iss: w.Issued(), Post: &o})
	for i := 0; i < depth; i++ {
		e := g.nextEvent(family)
		ro, rq, _ := w.Step(e)
		(&e).Norm()
		po := w.Project()
		lines = append(lines, Line{Kind: "ev", E: &e, Post: &po, Resp: &ro, Req: rq, Iss: w.Issued()})
	}
	if !w.SamePeriod() {
		return nil, errPeriod
	}
	return lines, nil
}

// rcArgs fills in a recovery code: usually one the relevant account still holds.
func (g *genCtx) rcArgs(e *sut.Event, o sut.Obs) {
	who := o.Sess[e.B].Uid
	if who == "none" {
		who = o.Sess[e.B].TotpPend
	}
	if who == "none" {
		who = o.Sess[e.B].SmsPend
	}
	if who == "none" || g.chance(0.2) {
		who = g.pick("u1", "u2")
	}
	d := o.Db[who]
	e.Code = 0
	switch {
	case d.Rcg > 0 && len(d.RcLeft) > 0 && g.chance(0.7):
		e.G, e.Rc = d.Rcg, d.RcLeft[g.rng.Intn(len(d.RcLeft))]
	case d.Rcg > 0 && g.chance(0.5):
		e.G, e.Rc = d.Rcg, 1+g.rng.Intn(10) // possibly already used
	default:
		e.G, e.Rc, e.Junk = 0, -1, g.pick("garbage", "hash")
	}
}
