package main

import (
	"flag"
	"fmt"
	"math/rand"
	"os"
	"sync"

	"abverif/sut"
)

// C18: fault enumeration inside random scenarios. At a request step the world
// is snapshotted, the request is run fault-free to learn its backend calls,
// and then re-run from the snapshot with a failure injected at call k (all k
// in exhaustive mode, a seeded subset otherwise), each variant recorded as a
// forked trace line (save / restore lines let Trace.tla fork its state too).
// The scenario continues from the last variant, so spent / rejected
// credentials are retried by later steps.

var errKinds = []string{"io", "notfound", "tokennotfound"}

func faultScenario(family string, depth int, seed int64, pFault float64, exhaustive bool) (lines []Line, err error) {
	defer func() {
		if p := recover(); p != nil {
			err = panicErr(p)
		}
	}()
	rng := rand.New(rand.NewSource(seed))
	sc := familyConfig(family, rng)
	normCfg(&sc.Cfg)
	if sc.Seed == nil {
		sc.Seed = []sut.SeedUser{}
	}
	w, err := sut.NewWorld(sc.Cfg, sc.Pids, sc.Browsers)
	if err != nil {
		return nil, err
	}
	w.ApplySeed(sc.Seed)
	g := &genCtx{rng: rng, w: w, cfg: sc.Cfg, sc: &sc}
	o := w.Project()
	cfg := sc.Cfg
	lines = append(lines, Line{Kind: "init", Name: "faults", Cfg: &cfg, Pids: sc.Pids, Browsers: sc.Browsers, Seed: sc.Seed, Iss: w.Issued(), Post: &o})
	emit := func(e sut.Event) *sut.RespObs {
		ro, rq, _ := w.Step(e)
		(&e).Norm()
		po := w.Project()
		lines = append(lines, Line{Kind: "ev", E: &e, Post: &po, Resp: &ro, Req: rq, Iss: w.Issued()})
		return &ro
	}
	for i := 0; i < depth; i++ {
		e := g.nextEvent(family)
		if isEnvAct(e.Act) || rng.Float64() > pFault {
			emit(e)
			continue
		}
		snap := w.Snapshot()
		lines = append(lines, Line{Kind: "save"})
		ref := emit(e)
		n := len(ref.Calls)
		if n == 0 {
			continue
		}
		var ks []int
		if exhaustive {
			for k := 1; k <= n; k++ {
				ks = append(ks, k)
			}
		} else {
			ks = []int{1 + rng.Intn(n)}
			if n > 1 && rng.Intn(2) == 0 {
				ks = append(ks, 1+rng.Intn(n))
			}
		}
		for _, k := range ks {
			kinds := []string{"io"}
			switch ref.Calls[k-1].Kind {
			case "Load", "LoadByConfirmSelector", "LoadByRecoverSelector", "Save":
				kinds = append(kinds, "notfound")
			case "UseRememberToken":
				kinds = append(kinds, "tokennotfound")
			}
			for _, kind := range kinds {
				if !exhaustive && kind != "io" && rng.Intn(2) == 0 {
					continue
				}
				w.Restore(snap)
				lines = append(lines, Line{Kind: "restore"})
				fe := e
				fe.Fault, fe.FaultE = k, kind
				emit(fe)
			}
		}
		// continue from the last faulted variant
		lines = append(lines, Line{Kind: "drop"})
	}
	if !w.SamePeriod() {
		return nil, errPeriod
	}
	return lines, nil
}

// scriptedFaults runs a scripted scenario; every request step is first forked
// exhaustively (every call index, every meaningful error kind), then executed
// fault-free so that the script continues on its intended path.
func scriptedFaults(sc Scenario) (lines []Line, err error) {
	defer func() {
		if p := recover(); p != nil {
			err = panicErr(p)
		}
	}()
	normCfg(&sc.Cfg)
	if sc.Seed == nil {
		sc.Seed = []sut.SeedUser{}
	}
	w, err := sut.NewWorld(sc.Cfg, sc.Pids, sc.Browsers)
	if err != nil {
		return nil, err
	}
	w.ApplySeed(sc.Seed)
	o := w.Project()
	cfg := sc.Cfg
	lines = append(lines, Line{Kind: "init", Name: sc.Name, Cfg: &cfg, Pids: sc.Pids, Browsers: sc.Browsers, Seed: sc.Seed, Iss: w.Issued(), Post: &o})
	emit := func(e sut.Event) *sut.RespObs {
		ro, rq, _ := w.Step(e)
		(&e).Norm()
		po := w.Project()
		lines = append(lines, Line{Kind: "ev", E: &e, Post: &po, Resp: &ro, Req: rq, Iss: w.Issued()})
		return &ro
	}
	for _, e := range sc.Steps {
		if isEnvAct(e.Act) {
			emit(e)
			continue
		}
		snap := w.Snapshot()
		lines = append(lines, Line{Kind: "save"})
		ref := emit(e)
		for k := 1; k <= len(ref.Calls); k++ {
			kinds := []string{"io"}
			switch ref.Calls[k-1].Kind {
			case "Load", "LoadByConfirmSelector", "LoadByRecoverSelector", "Save":
				kinds = append(kinds, "notfound")
			case "UseRememberToken":
				kinds = append(kinds, "tokennotfound")
			}
			for _, kind := range kinds {
				w.Restore(snap)
				lines = append(lines, Line{Kind: "restore"})
				fe := e
				fe.Fault, fe.FaultE = k, kind
				emit(fe)
			}
		}
		w.Restore(snap)
		lines = append(lines, Line{Kind: "restore"}, Line{Kind: "drop"})
		emit(e)
	}
	return lines, nil
}

func isEnvAct(a string) bool {
	switch a {
	case "Tick", "Tock", "AdminLock", "AdminUnlock", "RestartConfirm", "UpdatePassword", "StealCookie", "DropSession", "JunkCookie", "AppKey":
		return true
	}
	return false
}

func faultsCmd(args []string) {
	fs := flag.NewFlagSet("faults", flag.ExitOnError)
	out := fs.String("out", "", "trace file")
	n := fs.Int("n", 50, "scenarios")
	depth := fs.Int("depth", 20, "steps")
	seed := fs.Int64("seed", 1, "seed")
	family := fs.String("family", "full", "family")
	p := fs.Float64("p", 0.4, "probability a request step is fault-forked")
	ex := fs.Bool("exhaustive", false, "every call index and error kind at each forked step")
	workers := fs.Int("workers", 16, "workers")
	scen := fs.String("scen", "", "scripted scenarios (each request step forked exhaustively)")
	fs.Parse(args)
	if *scen != "" {
		scs, err := readScenarios(*scen)
		if err != nil {
			fmt.Fprintln(os.Stderr, "abdrive:", err)
			os.Exit(2)
		}
		res := make([][]Line, len(scs))
		errs := make([]error, len(scs))
		var wg sync.WaitGroup
		sem := make(chan struct{}, *workers)
		for i := range scs {
			wg.Add(1)
			sem <- struct{}{}
			go func(i int) {
				defer wg.Done()
				defer func() { <-sem }()
				res[i], errs[i] = scriptedFaults(scs[i])
			}(i)
		}
		wg.Wait()
		for _, err := range errs {
			if err != nil {
				fmt.Fprintln(os.Stderr, "abdrive:", err)
				os.Exit(2)
			}
		}
		if err := writeTraces(*out, res); err != nil {
			fmt.Fprintln(os.Stderr, "abdrive:", err)
			os.Exit(2)
		}
		return
	}
	res := make([][]Line, *n)
	errs := make([]error, *n)
	var wg sync.WaitGroup
	sem := make(chan struct{}, *workers)
	for i := 0; i < *n; i++ {
		wg.Add(1)
		sem <- struct{}{}
		go func(i int) {
			defer wg.Done()
			defer func() { <-sem }()
			for a := 0; a < 3; a++ {
				res[i], errs[i] = faultScenario(*family, *depth, *seed*1000003+int64(i), *p, *ex)
				if errs[i] != errPeriod {
					break
				}
			}
		}(i)
	}
	wg.Wait()
	for _, e := range errs {
		if e != nil {
			fmt.Fprintln(os.Stderr, "abdrive:", e)
			os.Exit(2)
		}
	}
	if err := writeTraces(*out, res); err != nil {
		fmt.Fprintln(os.Stderr, "abdrive:", err)
		os.Exit(2)
	}
}

func init() { extra["faults"] = faultsCmd }
