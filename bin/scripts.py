"""Scripted adversarial scenarios (abstract steps) per property: the
multi-step situations each clause is about, executed in every tier in addition
to TLC-generated behaviours and random scenarios."""

BASE = dict(lockAfter=2, lockWindow=2, lockDuration=2, expireAfter=2, recoverTTL=2, recoverLogin=False, emailAuth=False,
            totpOneTime=False, whitelist=[], logoutMethod='DELETE', mwReqs=0, mwFail='404', errWrites=False, json=False, mailGo=False, foldPid=False, regNoWhitelist=False, appHandles2FA=False)
E0 = dict(act='none', b='none', pid='none', pw=0, tok=0, rm=False, valid=True, d=0, method='none', code=0, rc=0, g=0,
          kind='none', prov='none', outcome='none', phone=0, redir='none', k='none')


def ev(act, b='b1', **kw):
    e = dict(E0, act=act, b=b)
    e.update(kw)
    return e


def U(pid, pw, conf=True, **kw):
    s = dict(pid=pid, pw=pw, conf=conf, totp=False, sms=0, otps=0, rc=False)
    s.update(kw)
    return s


def sc(name, modules, steps, seed=None, **cfg):
    c = dict(BASE, modules=modules)
    c.update(cfg)
    return dict(name='script:' + name, cfg=c, seed=seed if seed is not None else [U('u1', 1), U('u2', 2)],
                pids=['u1', 'u2', 'u3', 'g1'], browsers=['b1', 'b2'], steps=steps)


login = lambda pid, pw, b='b1', **kw: ev('LoginPost', b, pid=pid, pw=pw, **kw)
probe = lambda b='b1', k='none': ev('Probe', b, k=k)
tick = lambda d: ev('Tick', 'none', d=d)

SCRIPTS = {}

SCRIPTS['C03'] = [
    sc('unconfirmed-after-login', ['auth', 'confirm', 'logout'],
       [probe(k='bare'), login('u1', 1), probe(), probe(k='bare'), ev('RestartConfirm', 'none', pid='u1'), probe(), probe(k='alt1'),
        probe(k='alt2'), probe(k='alt3'), probe(k='bare')]),
    sc('locked-after-login', ['auth', 'lock', 'logout'],
       [login('u1', 1), probe(), ev('AdminLock', 'none', pid='u1'), probe(), probe(k='alt1'), probe(k='alt2'), probe(k='alt3'),
        tick(3), probe(), login('u1', 1, b='b2')]),
    sc('lock-between-2fa-steps', ['auth', 'totp', 'lock', 'confirm', 'logout'],
       [login('u1', 1), ev('AdminLock', 'none', pid='u1'), ev('TotpValidate', tok=1, code=1), probe(),
        tick(3), ev('TotpValidate', tok=1, code=3), probe()], seed=[U('u1', 1, totp=True, rc=True), U('u2', 2)]),
    sc('unconfirm-between-2fa-steps', ['auth', 'confirm', 'sms', 'lock', 'logout'],
       [login('u2', 2), ev('RestartConfirm', 'none', pid='u2'), ev('SmsValidate', code=1), probe(),
        ev('ConfirmGet', tok=1), ev('SmsValidate', code=1), probe()], seed=[U('u1', 1), U('u2', 2, sms=1, rc=True)]),
    sc('locked-2fa-account-logs-in', ['totp', 'auth', 'lock', 'logout'],
       [ev('AdminLock', 'none', pid='u1'), login('u1', 1), ev('TotpValidate', tok=1, code=1), probe()],
       seed=[U('u1', 1, totp=True, rc=True), U('u2', 2)]),
    sc('unconfirmed-2fa-account-logs-in', ['sms', 'auth', 'confirm', 'logout'],
       [login('u2', 2), ev('SmsValidate', code=1), probe()], seed=[U('u1', 1), U('u2', 2, conf=False, sms=1)]),
    sc('recover-login-locked', ['auth', 'recover', 'lock', 'confirm', 'logout'],
       [ev('RecoverStart', pid='u1'), ev('AdminLock', 'none', pid='u1'), ev('RecoverEnd', tok=1, pw=3), probe(),
        ev('RecoverStart', pid='u2'), ev('RecoverEnd', b='b2', tok=2, pw=3), probe('b2')],
       seed=[U('u1', 1), U('u2', 2, conf=False)], recoverLogin=True),
]

T1 = [U('u1', 1, totp=True, rc=True), U('u2', 2, sms=1, rc=True, otps=2)]
SCRIPTS['C18'] = [
    sc('f-remember-recover', ['auth', 'remember', 'recover', 'logout'],
       [login('u1', 1, rm=True), ev('RecoverStart', 'b2', pid='u1'), ev('RecoverEnd', 'b2', tok=1, pw=3), ev('DropSession', 'b1'),
        probe('b1'), login('u1', 3, b='b2')], recoverLogin=True, errWrites=True),
    sc('f-remember-recover-silent', ['auth', 'remember', 'recover', 'lock', 'logout'],
       [login('u1', 1, rm=True), ev('DropSession', 'b1'), probe('b1'), ev('RecoverStart', 'b2', pid='u1'),
        ev('RecoverEnd', 'b2', tok=1, pw=3), probe('b1'), ev('Logout', 'b1', method='DELETE')]),
    sc('f-otp', ['auth', 'otp', 'lock', 'logout'],
       [ev('OtpLoginPost', pid='u2', tok=1), ev('OtpLoginPost', 'b2', pid='u2', tok=1), ev('OtpAdd'), ev('OtpLoginPost', 'b2', pid='u2', tok=3),
        ev('OtpClear'), ev('OtpLoginPost', 'b2', pid='u2', tok=2)], seed=T1, errWrites=True),
    sc('f-otp-2fa', ['auth', 'otp', 'sms', 'totp', 'logout'],
       [ev('OtpLoginPost', pid='u2', tok=1), ev('SmsValidate', code=1), ev('OtpLoginPost', 'b2', pid='u2', tok=1)], seed=T1, errWrites=True),
    sc('f-2fa-rc', ['auth', 'totp', 'sms', 'recovery', 'lock', 'logout'],
       [login('u1', 1), ev('TotpValidate', rc=1, g=1), ev('RecoveryRegen'), login('u1', 1, b='b2'), ev('TotpValidate', 'b2', rc=1, g=1),
        ev('TotpValidate', 'b2', tok=1, code=1), login('u2', 2, b='b1'), ev('SmsValidate', code=0), ev('SmsValidate', code=2)],
       seed=T1, errWrites=True, totpOneTime=True),
    sc('f-2fa-setup', ['auth', 'totp', 'sms', 'recovery', 'logout'],
       [login('u1', 1), ev('TotpSetup'), ev('TotpConfirm', tok=1, code=1), ev('TotpRemove', tok=1, code=3), ev('SmsSetup', phone=2),
        ev('SmsConfirm', code=1), ev('SmsRemove', code=0), tick(1), ev('SmsRemove', code=0), ev('SmsRemove', code=2)], seed=[U('u1', 1), U('u2', 2)]),
    sc('f-register-confirm', ['auth', 'register', 'confirm', 'logout'],
       [ev('RegisterPost', pid='u2', pw=2), ev('ConfirmGet', tok=1), login('u2', 2), probe()], seed=[U('u1', 1)], errWrites=True),
    sc('f-oauth', ['auth', 'oauth2', 'remember', 'lock', 'logout'],
       [ev('OAuthStart', prov='pa', rm=True), ev('OAuthCallback', prov='pa', tok=1, outcome='x'), ev('DropSession'), probe(),
        ev('Logout', method='DELETE')], errWrites=False),
]

SCRIPTS['C02'] = [
    sc('rc-reuse-totp', ['auth', 'totp', 'logout'],
       [login('u1', 1), ev('TotpValidate', rc=1, g=1), ev('Logout', method='DELETE'), login('u1', 1), ev('TotpValidate', rc=1, g=1),
        login('u1', 1, b='b2'), ev('TotpValidate', 'b2', rc=1, g=1), ev('TotpValidate', 'b2', rc=2, g=1)],
       seed=[U('u1', 1, totp=True, rc=True), U('u2', 2)]),
    sc('rc-reuse-sms', ['auth', 'sms', 'lock', 'logout'],
       [login('u2', 2), ev('SmsValidate', rc=3, g=1), ev('Logout', method='DELETE'), login('u2', 2), ev('SmsValidate', rc=3, g=1),
        ev('SmsValidate', code=2)], seed=[U('u1', 1), U('u2', 2, sms=1, rc=True)]),
    sc('pending-switch', ['auth', 'sms', 'totp', 'logout'],
       [login('u2', 2), login('u1', 1), ev('SmsValidate', code=1), ev('TotpValidate', tok=1, code=1), tick(1),
        login('u2', 2), login('u1', 1), ev('SmsValidate', code=2)],
       seed=[U('u1', 1, totp=True, rc=True), U('u2', 2, sms=1, rc=True)]),
    sc('sms-switch-inside-limit', ['auth', 'sms', 'logout'],
       [login('u2', 2), login('u1', 1), ev('SmsValidate', code=1), ev('SmsValidate', code=0), tick(1), ev('SmsValidate', code=0),
        ev('SmsValidate', code=1), ev('SmsValidate', code=2)],
       seed=[U('u1', 1, sms=1, rc=True), U('u2', 2, sms=2)]),
]
SCRIPTS['C12'] = SCRIPTS['C02'][:2] + [
    sc('totp-replay-spellings', ['auth', 'totp', 'logout'],
       [login('u1', 1), ev('TotpValidate', tok=1, code=1), login('u1', 1, b='b2'), ev('TotpValidate', 'b2', tok=1, code=1),
        ev('TotpValidate', 'b2', tok=1, code=1, junk='space'), ev('TotpValidate', 'b2', tok=1, code=3),
        login('u1', 1, b='b1'), ev('TotpValidate', 'b1', tok=1, code=3, junk='space')],
       seed=[U('u1', 1, totp=True, rc=True), U('u2', 2)], totpOneTime=True),
    sc('otp-replay', ['auth', 'otp', 'totp', 'logout'],
       [ev('OtpLoginPost', pid='u2', tok=2), ev('OtpLoginPost', 'b2', pid='u2', tok=2), ev('OtpLoginPost', 'b2', pid='u2', tok=3),
        ev('OtpLoginPost', pid='u1', tok=1), ev('TotpValidate', tok=1, code=1), ev('OtpLoginPost', 'b2', pid='u1', tok=1)],
       seed=[U('u1', 1, totp=True, rc=True, otps=1), U('u2', 2, otps=2)]),
]
SCRIPTS['C07'] = [
    sc('oauth-stale-params', ['auth', 'oauth2', 'remember', 'logout'],
       [ev('OAuthStart', prov='pa', rm=True), ev('OAuthStart', prov='pa'), ev('OAuthCallback', prov='pa', tok=2, outcome='x'),
        ev('DropSession'), probe()]),
    sc('cookie-theft', ['auth', 'remember', 'logout'],
       [login('u1', 1, rm=True), ev('StealCookie', k='b2'), ev('DropSession'), probe('b2'), probe('b1'), probe('b2'), probe('b1')], mwReqs=0),
    sc('halfauth-then-refused-login', ['auth', 'remember', 'confirm', 'logout'],
       [login('u1', 1, rm=True), ev('DropSession'), probe(), login('u2', 2), probe(), login('u2', -1), probe()],
       seed=[U('u1', 1), U('u2', 2, conf=False)], mwReqs=1),
]
SCRIPTS['C10'] = [
    sc('cookie-only-logout', ['auth', 'remember', 'logout'],
       [login('u1', 1, rm=True), ev('DropSession'), ev('Logout', method='DELETE'), probe(), login('u1', 1, rm=True),
        ev('Logout', method='GET'), ev('Logout', method='DELETE'), probe()]),
    sc('logout-mid-flows', ['auth', 'totp', 'sms', 'oauth2', 'recovery', 'logout'],
       [login('u1', 1), ev('Logout', method='POST'), probe(), login('u2', 2), ev('Logout', method='POST'), probe(),
        ev('OAuthStart', prov='pa', rm=True, redir='redir'), ev('Logout', method='POST'),
        login('g1', -1), ev('AppKey', 'b1', k='app1'), ev('AppKey', 'b1', k='app2'), ev('Logout', method='POST')],
       seed=[U('u1', 1, totp=True, rc=True), U('u2', 2, sms=1)], logoutMethod='POST', whitelist=['app1']),
    sc('logout-mid-setup', ['auth', 'totp', 'sms', 'logout'],
       [login('u1', 1), ev('TotpSetup'), ev('SmsSetup', phone=1), ev('EmailVerifyStart', kind='totp'), ev('Logout', method='DELETE'), probe()],
       emailAuth=False),
]
SCRIPTS['C13'] = [
    sc('pending-victim-then-own-login', ['auth', 'sms', 'totp', 'recovery', 'logout'],
       [login('u2', 2), login('u1', 1), tick(1), ev('SmsSetup', phone=2), ev('SmsConfirm', code=2), ev('RecoveryRegen'),
        ev('TotpSetup'), ev('TotpConfirm', tok=1, code=1), ev('TotpRemove', tok=1, code=3)],
       seed=[U('u1', 1), U('u2', 2, sms=1, rc=True)]),
    sc('halfauth-cannot-change', ['auth', 'remember', 'totp', 'sms', 'recovery', 'logout'],
       [login('u1', 1, rm=True), ev('DropSession'), ev('RecoveryRegen'), ev('TotpSetup'), ev('SmsSetup', phone=1),
        ev('TotpRemove', tok=1, code=1), ev('TotpRemove', rc=1, g=1)], seed=[U('u1', 1, totp=True, rc=True), U('u2', 2)]),
    sc('setup-resend-other-number', ['auth', 'sms', 'logout'],
       [login('u1', 1), ev('SmsSetup', phone=1), ev('SmsSetup', phone=2), ev('SmsConfirm', code=1), tick(1), ev('SmsSetup', phone=2),
        ev('SmsConfirm', code=1), ev('SmsConfirm', code=2)], errWrites=True),
    sc('email-auth', ['auth', 'totp', 'logout'],
       [login('u1', 1), ev('TotpSetup'), ev('EmailVerifyEnd', kind='totp', tok=-1, junk='empty'), ev('TotpSetup'),
        ev('EmailVerifyStart', kind='totp'), ev('EmailVerifyEnd', kind='totp', tok=1), ev('TotpSetup'), ev('TotpConfirm', tok=1, code=1),
        ev('TotpSetup')], emailAuth=True),
]
SCRIPTS['C19'] = [
    sc('no-whitelist-extra-fields', ['auth', 'register', 'logout'],
       [ev('RegisterPost', pid='u2', pw=2, junk='extra'), ev('RegisterPost', 'b2', pid='u2', pw=3), ev('RegisterPost', 'b2', pid='g1', pw=1, valid=False, junk='nopw')],
       seed=[U('u1', 1)], regNoWhitelist=True),
    sc('default-whitelist-extra-fields', ['auth', 'register', 'confirm', 'logout'],
       [ev('RegisterPost', pid='u2', pw=5, junk='extra'), ev('ConfirmGet', tok=1), login('u2', 5)], seed=[U('u1', 1)]),
]

SCRIPTS['C17'] = [
    sc('token-links-refused', ['auth', 'remember', 'totp', 'confirm', 'recover', 'logout'],
       [login('u1', 1, rm=True), ev('EmailVerifyStart', kind='totp'), ev('DropSession'), ev('EmailVerifyEnd', kind='totp', tok=1),
        ev('Logout', method='DELETE'), ev('EmailVerifyEnd', kind='totp', tok=1), ev('RestartConfirm', 'none', pid='u2'),
        ev('ConfirmGet', tok=1, junk='trail'), ev('ConfirmGet', tok=1), ev('RecoverStart', pid='u2'),
        ev('RecoverEnd', tok=1, pw=3, valid=False), ev('RecoverEnd', tok=1, pw=3)],
       emailAuth=True, mwFail='redirect'),
    sc('register-secrets', ['auth', 'register', 'otp', 'logout'],
       [ev('RegisterPost', pid='u2', pw=5, junk='extra'), ev('OtpAdd'), ev('OtpLoginPost', 'b2', pid='u2', tok=1),
        ev('UpdatePassword', 'none', pid='u2', pw=5), login('u2', 5)], seed=[U('u1', 1)], regNoWhitelist=True),
]
SCRIPTS['C18'] += [
    sc('f-sms-rc-500', ['auth', 'sms', 'lock', 'logout'],
       [login('u2', 2), ev('SmsValidate', rc=2, g=2), ev('Logout', method='DELETE'), login('u2', 2), ev('SmsValidate', rc=2, g=2)],
       seed=T1, errWrites=True),
    sc('f-sms-rc-silent', ['auth', 'sms', 'logout'],
       [login('u2', 2), ev('SmsValidate', rc=2, g=2), login('u2', 2, b='b2'), ev('SmsValidate', 'b2', rc=2, g=2)], seed=T1),
    sc('f-totp-rc-silent', ['auth', 'totp', 'logout'],
       [login('u1', 1), ev('TotpValidate', rc=1, g=1), login('u1', 1, b='b2'), ev('TotpValidate', 'b2', rc=1, g=1)], seed=T1),
    sc('f-cookie-500', ['auth', 'remember', 'logout'],
       [login('u1', 1, rm=True), ev('DropSession'), probe(), ev('DropSession'), probe(), ev('StealCookie', k='b2'), probe('b2')],
       errWrites=True),
    sc('f-bare-middleware', ['auth', 'lock', 'confirm', 'logout'],
       [login('u1', 1), probe(k='bare'), ev('RestartConfirm', 'none', pid='u1'), probe(k='bare'), ev('AdminLock', 'none', pid='u1'), probe(k='bare')]),
    sc('f-bare-confirm-only', ['auth', 'confirm', 'logout'],
       [login('u1', 1), probe(k='bare'), ev('RestartConfirm', 'none', pid='u1'), probe(k='bare'), probe()]),
    sc('f-bare-lock-only', ['auth', 'lock', 'logout'],
       [login('u1', 1), probe(k='bare'), ev('AdminLock', 'none', pid='u1'), probe(k='bare'), probe()]),
    sc('f-register-confirm-silent', ['auth', 'register', 'confirm', 'lock', 'logout'],
       [ev('RegisterPost', pid='u2', pw=2), ev('ConfirmGet', tok=1), login('u2', 2), probe()], seed=[U('u1', 1)]),
    sc('f-recover-login-2fa', ['auth', 'recover', 'totp', 'remember', 'logout'],
       [ev('RecoverStart', pid='u1'), ev('RecoverEnd', tok=1, pw=3), ev('TotpValidate', tok=1, code=1), probe()],
       seed=T1, recoverLogin=True, errWrites=True),
]


def _sweep():
    pwj = ['wrong', 'empty', 'hash', 'prefix', 'nul', 'long']
    tokj = ['garbage', 'empty', 'flip:0', 'flip:255', 'flip:256', 'flip:511', 'trunc', 'ext', 'trail', 'splice', 'stored', 'zero', 'missing']
    out = []
    # password logins with every rejecting variant against: a normal account, a password-less (OAuth2) account, nobody
    steps = [ev('OAuthStart', prov='pa'), ev('OAuthCallback', prov='pa', tok=1, outcome='x'), ev('Logout', method='DELETE')]
    for j in pwj:
        for pid in ('o_pa_x', 'u1', 'g1'):
            steps += [login(pid, -1, junk=j), probe()]
    out.append(sc('sweep-passwords', ['auth', 'oauth2', 'lock', 'logout'], steps, lockAfter=50))
    # one-time passwords: every variant against an account with codes, one whose last code was just used, one without any
    steps = [ev('OtpLoginPost', pid='u1', tok=1), ev('Logout', method='DELETE')]
    for j in ['garbage', 'empty', 'hash']:
        for pid in ('u1', 'u2', 'g1'):
            steps += [ev('OtpLoginPost', pid=pid, tok=-1, junk=j), probe()]
    steps += [ev('OtpLoginPost', pid='u2', tok=1), ev('OtpLoginPost', pid='u1', tok=2), probe()]   # other account's codes
    out.append(sc('sweep-otps', ['auth', 'otp', 'logout'], steps, seed=[U('u1', 1, otps=1), U('u2', 2, otps=2)]))
    # mailed tokens: every rejecting variant while genuine tokens of two accounts are outstanding
    steps = [ev('RestartConfirm', 'none', pid='u1'), ev('RestartConfirm', 'none', pid='u2'), ev('RecoverStart', pid='u1'), ev('RecoverStart', pid='u2')]
    for j in tokj:
        steps += [ev('ConfirmGet', tok=-1, junk=j), ev('RecoverEnd', tok=-1, pw=3, junk=j), probe()]
    steps += [ev('ConfirmGet', tok=1), ev('ConfirmGet', tok=1), ev('RecoverEnd', tok=1, pw=3), ev('RecoverEnd', tok=1, pw=4), ev('RecoverEnd', tok=2, pw=3), probe()]
    out.append(sc('sweep-mailed-tokens', ['auth', 'confirm', 'recover', 'logout'], steps, recoverLogin=True))
    return out


SCRIPTS['C01'] = _sweep()
SCRIPTS['C05'] = [_sweep()[2]]
