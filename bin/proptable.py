"""Per-property configuration of bin/check: which spec families TLC explores,
which random-driver families are executed, and the property's footprint (the
projected fields in which a divergence between the real step and the
specification's step is a violation of this property; clause names Cxx.* from
Props.tla are always in the footprint of Cxx)."""

TB = ["harness-owned components are trusted: copying store, server-side client-state stores, capturing mailer/SMS sender, "
      "projection and concretiser (negative controls: seeded changes under /verif/seeded are detected)",
      "time: whole ticks of one hour against thresholds configured as (k+1/2) ticks; the exact-equality instant of a "
      "threshold is not decided",
      "bounded exploration: TLC exhausts the spec only within the stated constants; the code is exercised on the "
      "replayed TLC behaviours and the seeded random scenarios, not on all inputs"]


def tiers(mc, random, consts=None, fam_consts=None, q=(100, 10, 100, 30), t=(1500, 14, 1500, 40), tconsts=None):
    return dict(
        quick=dict(mc=mc, random=random, consts=consts or {}, fam_consts=fam_consts or {}, sim_num=q[0], sim_depth=q[1],
                   rand_num=q[2], rand_depth=q[3]),
        thorough=dict(mc=mc, random=random, consts=dict(consts or {}, **(tconsts or {'MaxDepth': 7})),
                      fam_consts=fam_consts or {}, sim_num=t[0], sim_depth=t[1], rand_num=t[2], rand_depth=t[3]))


PROPS = {}


def P(pid, foot, mc, random, foot_acts=None, **kw):
    d = dict(foot=foot, foot_acts=foot_acts, assumptions=list(TB), level='model_checking')
    d.update(tiers(mc, random, **kw))
    PROPS[pid] = d


P('C01', ['sess.uid', 'sess.totpPend', 'sess.smsPend'], ['login', 'remember', 'recover', 'register', 'oauth', 'otp', 'twofa'], ['core', 'full'],
  fam_consts={'oauth': {'Pids': '{"u1","o_pa_x","o_pa_y","o_pb_x","o_pb_y"}', 'MaxDepth': 5}, 'otp': {'MaxIss': 7}, 'twofa': {'MaxDepth': 5}})
P('C03', ['sess.uid', 'resp.ran'], ['login', 'recover', 'twofa'], ['core', 'twofa'], fam_consts={'twofa': {'MaxDepth': 5}})
P('C04', ['db.att', 'db.winLeft', 'db.lockLeft'], ['lock', 'login'], ['core', 'full'])
P('C05', ['db.conf', 'db.cTok', 'db.rTok', 'db.rLeft', 'db.pw'], ['recover', 'register', 'login'], ['core', 'full'],
  foot_acts=['ConfirmGet', 'RecoverStart', 'RecoverEnd', 'RestartConfirm'])
P('C06', ['db.pw', 'db.rTok', 'rm', 'cookie'], ['remember', 'recover'], ['core', 'full'],
  foot_acts=['RecoverEnd', 'UpdatePassword', 'LoginPost', 'Probe'])
P('C07', ['rm', 'cookie', 'sess.half', 'sess.uid', 'sess.oRm', 'sess.oHas'], ['remember', 'oauth'], ['core', 'oauth'],
  fam_consts={'oauth': {'Pids': '{"u1","o_pa_x","o_pa_y","o_pb_x","o_pb_y"}', 'MaxDepth': 5}})
P('C09', ['sess.expLeft', 'sess.uid', 'resp.seenUser', 'resp.seenKeys', 'resp.ran', 'sess.*'], ['expire'], ['core', 'full'],
  foot_acts=['Probe', 'LoginPost', 'Tick', 'Logout'])
P('C10', ['sess.*', 'cookie'], ['login', 'remember', 'expire'], ['core', 'full'], foot_acts=['Logout'])
P('C19', ['db.ex', 'db.pw', 'db.arb', 'db.conf', 'db.cTok', 'db.extra', 'sess.uid', 'resp.class', 'resp.loc', 'resp.mails'],
  ['register'], ['core', 'full'], foot_acts=['RegisterPost'])

P('C17', ['resp.mails', 'db.arb'], ['recover', 'register', 'tfasetup', 'remember'], ['core', 'full'], fam_consts={'tfasetup': {'MaxDepth': 5}})
PROPS['C17']['assumptions'] = PROPS['C17']['assumptions'] + [
    'the scanner looks for every plaintext secret the harness typed or was shown (passwords incl. a bcrypt-shaped one, one-time passwords, '
    'recovery codes, remember cookies, mailed tokens; raw, base64 std/url, hex, URL-escaped, and decoded token bytes) in every stored string '
    'field, the remember-token table and the log lines of each step; SMS codes and the TOTP shared secret are outside the statement',
    'besides the fault-free histories, random scenarios with injected backend failures are scanned (the error paths log and store too); a mail whose delivery failed is still a secret the harness knows and looks for',
    'one third of the random configurations use a store whose Load resolves PIDs case-insensitively']

OPIDS = {'Pids': '{"u1","o_pa_x","o_pa_y","o_pb_x","o_pb_y"}'}
P('C02', ['sess.uid', 'sess.twofa', 'sess.totpPend', 'sess.smsPend', 'sess.smsCode', 'sess.smsFresh', 'resp.sms', 'db.rcLeft'],
  ['twofa', 'smsswitch'], ['twofa', 'full'], fam_consts={'twofa': {'MaxDepth': 5}},
  tconsts={'MaxDepth': 6})
P('C12', ['db.otps', 'db.rcLeft', 'db.rcg', 'db.totpLast', 'sess.smsCode', 'sess.uid'], ['otp', 'twofa'], ['twofa', 'full'],
  fam_consts={'twofa': {'MaxDepth': 5}, 'otp': {'MaxIss': 7}}, tconsts={'MaxDepth': 6})
P('C13', ['db.totp', 'db.sms', 'db.rcg', 'db.rcLeft', 'sess.tfaTok', 'sess.tfaAuthed', 'sess.totpSetup', 'sess.smsNum', 'sess.half', 'sess.twofa'],
  ['tfasetup'], ['twofa', 'full'], fam_consts={'tfasetup': {'MaxDepth': 6}}, tconsts={'MaxDepth': 7})
P('C14', ['sess.oState', 'sess.oHas', 'sess.oRm', 'sess.uid', 'db.ex', 'db.extra'], ['oauth'], ['oauth', 'full'],
  fam_consts={'oauth': dict(OPIDS, MaxDepth=5)}, tconsts={'MaxDepth': 6}, foot_acts=['OAuthStart', 'OAuthCallback'])

PROPS['C08'] = dict(engine='mwtable', level='model_checking', foot=[], quick={}, thorough={},
                    technique='TLA+ decision table (spec/Middleware.tla) checked exhaustively by TLC; every row executed against the real middleware',
                    assumptions=['the table enumerates session contents x requirement bits x refusal mode x mount-path x storage outcome '
                                 'completely (864 rows); paths and query strings are sampled (k per row) from a pool with characters that need escaping',
                                 'storage outcomes are produced by the harness store (fault injection at the first backend call)',
                                 'path segments that the Go ServeMux itself would redirect (dot segments) are not generated'])

PROPS['C11'] = dict(engine='clientstate', level='model_checking', foot=[], quick={}, thorough={},
                    technique='TLA+ reference semantics of the client-state writer (spec/ClientState.tla): TLC enumerates every handler program up to a length bound and checks the clauses; each program is interpreted against the real writer',
                    assumptions=['programs over 15 operation shapes (put/del on two keys per store, session delete-all, header write, body write, reads) '
                                 'up to length 4 (quick) / 5 (thorough), each through 5 wrapper stacks; the library exposes no cookie delete-all',
                                 'the recording stores and the recording underlying writer share one sequence, so relative order is exact'])

PROPS['C15'] = dict(engine='redirect', level='model_checking', foot=[], quick={}, thorough={},
                    technique='TLA+ spec of browser URL resolution and the redirect guard over a URL-significant alphabet (spec/RedirectGuard.tla): TLC checks NoOffSite/StillUseful for every string; every string is sent through the real login flows and the real Location is classified by an independent oracle',
                    assumptions=['strings over 12 URL-significant symbols up to length 4 (quick) / 5 (thorough); each symbol is concretised to several characters or runs (letters include http, https, javascript, data)',
                                 'Resolve is the worst case over concretisations, cross-checked against an independent Go implementation of WHATWG preprocessing on every enumerated string (a disagreement is exit 2)',
                                 'all strings go through the password flow in form and JSON mode; the otp/totp/sms/oauth2 flows get a seeded 30% sample of the strings'])

PROPS['C19']['also'] = ['rules']
PROPS['C17']['also'] = ['faultscan']
PROPS['C07']['also'] = ['codecs']
PROPS['C14']['also'] = ['codecs']
PROPS['C07']['assumptions'] = PROPS['C07']['assumptions'] + ['codec clause: every PID over {a ; ,} up to length 3 logs in with remember-me and re-authenticates from the cookie alone (nonces are the library\'s random ones; those containing the separator are counted)']
PROPS['C14']['assumptions'] = PROPS['C14']['assumptions'] + ['codec clause: providers over {a,b} (separator-free) x uids over {a ; ,} up to length 4 (quick) / 6 (thorough) through the real MakeOAuth2PID / ParseOAuth2PID']
PROPS['C19']['assumptions'] = PROPS['C19']['assumptions'] + [
    'policy clause: class strings over {upper, lower, digit, symbol, whitespace, two-byte lower} up to length 4 (quick) / 5 (thorough) '
    'for 40 / 120 rule vectors (each bound alone, the shipped default, seeded random vectors), lengths in bytes']

PROPS['C18'] = dict(engine='faults', level='fault_enumeration', quick={}, thorough={},
                    foot=['C01.sessionOnlyByCredential', 'C01.otherBrowserUntouched', 'C02.primaryOnlyParks', 'C03.noLoginWhileBlocked', 'C03.middlewareBlocks', 'C13.changeAuthorised',
                          'C19.noAutoLoginUnderConfirm', 'C19.neverOverwrites', 'C19.invalidCreatesNothing'],
                    technique='TLA+ fault model (spec/Authboss.tla: every backend call site of every flow, the failing call has no effect and the handler stops the way the code at that site does) model-checked by TLC against the C18 clauses for every call index x error kind x error handler x response mode (fault families of spec/MC.tla); on the code: TLC fault behaviours, scripted and random scenarios with a failure injected at every backend call, each faulted step judged by TLC (spec/Trace.tla) against the clauses, with the fault-free specification step as the reference, and compared with the fault model',
                    assumptions=['backends = harness store (Load/Save/Create/LoadBy*Selector/remember-token calls/OAuth2 calls), hasher, view and mail renderer, SMS sender, mailer, provider lookup; error kinds: generic I/O error at every call, ErrUserNotFound at load/save calls, ErrTokenNotFound at UseRememberToken',
                                 'both the shipped log-only error handler and a 500-writing one are configured (random per scenario)',
                                 'lock.Middleware / confirm.Middleware document that they panic when the user cannot be loaded; in the harness chain they sit behind Middleware2, which has already loaded and cached the user, so that documented panic is not reachable and any panic is a violation',
                                 'the verdict on a faulted step comes from the fault clauses and the fault-tolerant general clauses; a difference between the observed faulted step and the fault model (or between the backend calls of a fault-free step and the modelled call protocol) is counted in the evidence as advisory, because no property constrains which calls a request makes',
                                 'fault families: MaxDepth 3 (quick) / 4-5 (thorough); the invariant CallsBound shows no modelled request makes more backend calls than the indices enumerated'])

PROPS['C16'] = dict(engine='ni', level='model_checking', foot=[], quick={}, thorough={},
                    technique='non-interference as a TLA+ state invariant over the pure step function Apply (TLC, every reachable state of the lock/recover/otp/login families); on the code: forked paired replay (snapshot, request A, restore, request B) with byte-level comparison of everything the client observes',
                    assumptions=['observation = status, all headers as sent, body bytes, the session and cookie change events delivered to the stores; RFC3339 stamps and the random nonce of a rotated remember cookie are canonicalised',
                                 'states for the paired runs come from seeded random scenarios (form and JSON mode alternate, manual locks are injected to reach locked accounts); timing is out of scope',
                                 'clause (c) is exercised only when the known account is not locked and the failed attempt would not lock it, as the property states'])

PROPS['C20'] = dict(engine='conc', level='model_checking', foot=[], quick={}, thorough={},
                    technique='independence of disjoint clients as a TLA+ invariant over Apply (TLC, indep family); below the request, spec/Schedules.tla: TLC enumerates every schedule of two in-flight requests at backend-call granularity (invariant Independent, negative control with a shared cell) and each schedule is replayed deterministically against one real instance through a gate in the store; plus free-running concurrent client scripts under the Go race detector; per-client observations compared with solo runs',
                    assumptions=['the race detector only sees the interleavings that actually happen in the run (free scheduling, 6-8 clients, many rounds); it is the deciding observation for the "no data race" clause, which a specification cannot express below its atomic steps',
                                 'schedules: two clients, every step of a 10-13 step script of the first paired with the same step and with rotated steps of the second, every interleaving of their backend calls up to 4 (quick) / 6 (thorough) calls per request (longer requests: the enumerated prefix, then sequential); mail is sent synchronously in these runs (the mail goroutines are exercised by the free-running part); calls without a request context (the hasher) are not scheduling points; every read of crypto/rand.Reader is one (taken after the bytes are delivered), and two clients must never end up holding the same random secret (OAuth2 state, remember cookie, 2FA tokens / secrets in the client state)',
                                 'a race report is attributed to the library when a frame lies under the repository path; a race in harness code only is exit 2',
                                 'SMTPMailer dials 127.0.0.1:9 (refused); the mime boundary generator runs before the dial'])

import components
COMPONENT = {'mwtable': components.mwtable, 'clientstate': components.clientstate, 'redirect': components.redirect, 'rules': components.rules, 'codecs': components.codecs, 'faults': components.faults, 'ni': components.noninterference, 'conc': components.concurrency, 'faultscan': components.faultscan}
