#!/usr/bin/env python3
"""Regenerates MANIFEST.json from bin/proptable.py (claimed checks) and the
not_applicable reasons below."""
import json, os, subprocess, sys
VERIF = os.path.dirname(os.path.dirname(os.path.abspath(__file__)))
sys.path.insert(0, os.path.join(VERIF, 'bin'))
from proptable import PROPS

TEXT = {
 'C01': ("Model checking of spec/Authboss.tla (every Props.tla clause on every transition, login/remember/recover/register "
         "families, exhaustive within the stated bounds) bound to the code both ways: TLC behaviours are replayed through the "
         "real router/body reader/client-state stack and seeded random scenarios (hostile credentials, other accounts' secrets, "
         "stale tokens, stored hashes) are recorded; TLC (Trace.tla) validates every step field by field and evaluates "
         "C01.sessionOnlyByCredential / otherBrowserUntouched on the observed steps with a ghost registry of spent secrets.",
         "DESIGN.md 5 C01"),
 'C03': ("Spec-level: C03.noLoginWhileBlocked and C03.middlewareBlocks hold on every transition of the composite model for both "
         "load orders of lock/confirm; code-level: replayed TLC behaviours and random histories (AdminLock/Unlock, RestartConfirm, "
         "Tick across LockDuration, 2FA second steps) validated step by step.", "DESIGN.md 5 C03"),
 'C04': ("The lock automaton is written in the spec from the property (LockUpdate/LockSuccess); TLC exhausts it for LockAfter in "
         "{1,2}, window/duration on both sides of the tick gaps; every observed attempt counter / window / lock remaining value "
         "must equal the automaton's (footprint db.att, db.winLeft, db.lockLeft) plus clauses correctNeverCounts, unlockClears, "
         "lockedAtThreshold.", "DESIGN.md 5 C04"),
 'C05': ("Token life cycle (issue / supersede / use / expire) model-checked; concretiser sends bit flips, truncations, extensions, "
         "cross-account splices, stored selector/verifier forms, empty and undecodable values; clauses rejectIsNoOp, onlyOwner, "
         "acceptSpends, supersession evaluated on every observed step.", "DESIGN.md 5 C05"),
 'C06': ("Password change (recover end, UpdatePassword) with outstanding remember tokens on two browsers model-checked; observed "
         "stored password is identified by verifying the stored hash against the password pool; clauses newPasswordSet, "
         "rememberRevoked, othersUntouched, tokenSpent.", "DESIGN.md 5 C06"),
 'C07': ("Remember-me issue / use / replay / theft / logout / reset histories model-checked; cookie ids are assigned in the order "
         "the store receives tokens, so rotation, single use and binding are compared exactly; PIDs include separator characters.",
         "DESIGN.md 5 C07"),
 'C09': ("Expiry middleware model-checked around the threshold for two ExpireAfter values and whitelists; downstream view "
         "(current user, visible keys) is recorded by the probe handler and compared; unknown session keys are reported.",
         "DESIGN.md 5 C09"),
 'C10': ("Logout fired from every session state the composite model reaches (all families), every whitelist and method; the raw "
         "session map is scanned for unknown residue.", "DESIGN.md 5 C10"),
 'C19': ("Registration outcomes (invalid / duplicate / created, with and without confirm) model-checked and compared on the code "
         "with missing, extra and hostile fields; the password-policy clause is decided by the Rules component when built.",
         "DESIGN.md 5 C19"),
}


def main():
    m = json.load(open(os.path.join(VERIF, 'MANIFEST.json')))
    m['setup_cmd'] = 'bin/setup'
    m['engines'] = [
        dict(name='authboss-spec', path='spec/Authboss.tla', kind_free_text='TLA+ specification of the request-level transition '
             'system (Apply), properties in spec/Props.tla, TLC model checking via spec/MC.tla, trace validation via spec/Trace.tla',
             serves_properties=sorted(PROPS)),
        dict(name='abdrive', path='harness/cmd/abdrive', kind_free_text='Go harness assembling a real authboss instance; executes '
             'abstract scenarios (TLC-generated or random), records ndjson traces with projected state', serves_properties=sorted(PROPS)),
    ]
    checks = []
    for pid in sorted(PROPS):
        txt, ref = TEXT.get(pid, ('model-based check', 'DESIGN.md 5'))
        checks.append(dict(
            property_id=pid, quick_cmd='bin/check %s quick' % pid, thorough_cmd='bin/check %s thorough' % pid,
            evidence_file='evidence/%s.json' % pid, replay_cmd_template='bin/check --replay {path}', engine='authboss-spec',
            level_claimed=dict(category=PROPS[pid].get('level', 'model_checking'), text=txt, design_ref=ref),
            level_note='; '.join(PROPS[pid]['assumptions']),
            technique=PROPS[pid].get('technique', 'TLA+ spec + TLC model checking; TLC behaviours replayed into the code; TLC trace validation of recorded executions')))
    m['checks'] = checks
    props = [json.loads(l)['id'] for l in open(os.path.join(VERIF, 'properties.jsonl'))]
    m['not_applicable'] = [dict(property_id=p, reason='check not built yet (build in progress; will be claimed once its TLA+ binding exists)')
                           for p in props if p not in PROPS]
    m['notes'] = 'see DESIGN.md; known_findings.txt lists repaired defects'
    json.dump(m, open(os.path.join(VERIF, 'MANIFEST.json'), 'w'), indent=1)


main()
