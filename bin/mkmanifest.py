#!/usr/bin/env python3
"""Regenerates MANIFEST.json from bin/proptable.py (claimed checks) and the
not_applicable reasons below."""
import json, os, subprocess, sys
VERIF = os.path.dirname(os.path.dirname(os.path.abspath(__file__)))
sys.path.insert(0, os.path.join(VERIF, 'bin'))
from proptable import PROPS

TEXT = {
 'C01': ("Model checking of spec/Authboss.tla (every Props.tla clause on every transition, login/remember/recover/register "
         "families, exhaustive within the stated bounds) bound to the code both ways: TLC behaviours are replayed through the "
         "real router/body reader/client-state stack and seeded random scenarios (hostile credentials, other accounts' secrets, "
         "stale tokens, stored hashes) are recorded; TLC (Trace.tla) validates every step field by field and evaluates "
         "C01.sessionOnlyByCredential / otherBrowserUntouched on the observed steps with a ghost registry of spent secrets.",
         "DESIGN.md 5 C01"),
 'C03': ("Spec-level: C03.noLoginWhileBlocked and C03.middlewareBlocks hold on every transition of the composite model for both "
         "load orders of lock/confirm; code-level: replayed TLC behaviours and random histories (AdminLock/Unlock, RestartConfirm, "
         "Tick across LockDuration, 2FA second steps) validated step by step.", "DESIGN.md 5 C03"),
 'C04': ("The lock automaton is written in the spec from the property (LockUpdate/LockSuccess); TLC exhausts it for LockAfter in "
         "{1,2}, window/duration on both sides of the tick gaps; every observed attempt counter / window / lock remaining value "
         "must equal the automaton's (footprint db.att, db.winLeft, db.lockLeft) plus clauses correctNeverCounts, unlockClears, "
         "lockedAtThreshold.", "DESIGN.md 5 C04"),
 'C05': ("Token life cycle (issue / supersede / use / expire) model-checked; concretiser sends bit flips, truncations, extensions, "
         "cross-account splices, stored selector/verifier forms, empty and undecodable values; clauses rejectIsNoOp, onlyOwner, "
         "acceptSpends, supersession evaluated on every observed step.", "DESIGN.md 5 C05"),
 'C06': ("Password change (recover end, UpdatePassword) with outstanding remember tokens on two browsers model-checked; observed "
         "stored password is identified by verifying the stored hash against the password pool; clauses newPasswordSet, "
         "rememberRevoked, othersUntouched, tokenSpent.", "DESIGN.md 5 C06"),
 'C07': ("Remember-me issue / use / replay / theft / logout / reset histories model-checked; cookie ids are assigned in the order "
         "the store receives tokens, so rotation, single use and binding are compared exactly; PIDs include separator characters.",
         "DESIGN.md 5 C07"),
 'C09': ("Expiry middleware model-checked around the threshold for two ExpireAfter values and whitelists; downstream view "
         "(current user, visible keys) is recorded by the probe handler and compared; unknown session keys are reported.",
         "DESIGN.md 5 C09"),
 'C10': ("Logout fired from every session state the composite model reaches (all families), every whitelist and method; the raw "
         "session map is scanned for unknown residue.", "DESIGN.md 5 C10"),
 'C19': ("Registration outcomes (invalid / duplicate / created, with and without confirm) model-checked and compared on the code "
         "with missing, extra and hostile fields; the password-policy clause is decided by the Rules component when built.",
         "DESIGN.md 5 C19"),
 'C02': ("2FA second-step model (twofa, smsswitch families: victim with TOTP, attacker-owned SMS account, both-SMS accounts, pending-login "
         "switches inside the resend limit, recover-and-login, OTP logins, remember-me requested on the primary step) model-checked; clauses primaryOnlyParks, noRememberOnPrimaryAlone and secondStepOwnFactor "
         "(SMS codes are tied to the phone they were sent to through a ghost relation fed by the SMS outbox) on every observed step.", "DESIGN.md 5 C02"),
 'C08': ("The middleware decision table (864 rows: session contents x requirement bits x refusal mode x mount-path x storage outcome) is a "
         "TLA+ spec checked exhaustively (AdmitIff, RefusalExact); every row is executed against the real Middleware2/MountedMiddleware2 "
         "with several concrete paths/queries; redirect targets are decoded and the login round trip is followed.", "DESIGN.md 5 C08"),
 'C11': ("Reference semantics of the client-state writer in TLA+; TLC enumerates every handler program up to length 4/5 and checks "
         "ExactlyOnce, InOrderSeparated, BeforeFirstByte, StableReads; each program (and seeded long programs judged by the same spec) is "
         "interpreted against the real writer through five wrapper stacks and the wire is compared exactly.", "DESIGN.md 5 C11"),
 'C12': ("One-time password / recovery code / SMS code / TOTP replay life cycles model-checked (otp, twofa families); a ghost registry of "
         "every secret that ever stopped being live makes a second acceptance visible even when storage was not updated.", "DESIGN.md 5 C12"),
 'C13': ("Enrolment / removal / regeneration / e-mail authorisation model-checked from logged-in, cookie-only (half-auth), pending and "
         "anonymous sessions, and from established worlds (plain / SMS-2FA / TOTP-2FA sessions, a half-authenticated TOTP account, an application calling remember.Authenticate itself); clauses changeAuthorised, enableNeedsProof, disableNeedsProof, emailAuthorised, emailAuthSound.", "DESIGN.md 5 C13"),
 'C14': ("OAuth2 start/callback interleavings across browsers and providers model-checked (state replay, cross-browser state, provider "
         "error, exchange failure under both error handlers); PID codec round trip and injectivity enumerated by TLC and executed.", "DESIGN.md 5 C14"),
 'C15': ("Browser URL resolution (worst case over concretisations) and the guard as a TLA+ spec over 12 URL-significant symbols; "
         "NoOffSite/StillUseful for every string up to length 4/5; every string sent through the password (form+JSON), OTP, TOTP, SMS "
         "(one- and two-step) and OAuth2 flows, decision compared and Location classified by an independent oracle.", "DESIGN.md 5 C15"),
 'C16': ("Non-interference stated as a TLA+ state invariant over the pure step function (every reachable state of the lock/recover/otp "
         "families); on the code, forked paired replay with byte-level comparison of status, headers, body and client-state events.", "DESIGN.md 5 C16"),
 'C17': ("Every step of every replayed/random scenario is scanned for every plaintext secret known to the harness in all stored fields "
         "and log lines (clause noPlaintextStoredOrLogged), also on steps with an injected backend failure (a mail whose delivery failed is still a secret the scanner knows); mail recipients are compared with the owner of the mailed token.", "DESIGN.md 5 C17"),
 'C18': ("The specification models every backend call site of every flow (call protocol conformance is checked on every fault-free step) and what "
         "the code does when that call fails; TLC checks noPanic, noFakeSuccess, noSessionOnUnsavedConsumption, onlyInvalidates, consumedStaysConsumed, "
         "nothingUnissuedBecomesLive on every transition of the fault families (each call index x error kind x error handler x response mode). On the "
         "code a failure is injected at every backend call of requests inside TLC-generated, scripted and random scenarios and each faulted step is "
         "judged by TLC against the same clauses.", "DESIGN.md 5 C18"),
 'C20': ("Independence of clients on disjoint accounts as a TLC invariant over request-atomic steps; every schedule of two in-flight requests at "
         "backend-call granularity enumerated by TLC (spec/Schedules.tla) and replayed deterministically on one real instance of the shipped default "
         "components; concurrent scripted clients under the Go race detector; each client's observations compared with solo runs.", "DESIGN.md 5 C20"),
}


def main():
    m = json.load(open(os.path.join(VERIF, 'MANIFEST.json')))
    m['setup_cmd'] = 'bin/setup'
    m['engines'] = [
        dict(name='authboss-spec', path='spec/Authboss.tla', kind_free_text='TLA+ specification of the request-level transition '
             'system (Apply), properties in spec/Props.tla, TLC model checking via spec/MC.tla, trace validation via spec/Trace.tla',
             serves_properties=sorted(PROPS)),
        dict(name='abdrive', path='harness/cmd/abdrive', kind_free_text='Go harness assembling a real authboss instance; executes '
             'abstract scenarios (TLC-generated or random), records ndjson traces with projected state', serves_properties=sorted(PROPS)),
    ]
    checks = []
    for pid in sorted(PROPS):
        txt, ref = TEXT.get(pid, ('model-based check', 'DESIGN.md 5'))
        checks.append(dict(
            property_id=pid, quick_cmd='bin/check %s quick' % pid, thorough_cmd='bin/check %s thorough' % pid,
            evidence_file='evidence/%s.json' % pid, replay_cmd_template='bin/check --replay {path}', engine='authboss-spec',
            level_claimed=dict(category=PROPS[pid].get('level', 'model_checking'), text=txt, design_ref=ref),
            level_note='; '.join(PROPS[pid]['assumptions']),
            technique=PROPS[pid].get('technique', 'TLA+ spec + TLC model checking; TLC behaviours replayed into the code; TLC trace validation of recorded executions')))
    m['checks'] = checks
    props = [json.loads(l)['id'] for l in open(os.path.join(VERIF, 'properties.jsonl'))]
    m['not_applicable'] = [dict(property_id=p, reason='check not built yet (build in progress; will be claimed once its TLA+ binding exists)')
                           for p in props if p not in PROPS]
    m['notes'] = 'see DESIGN.md; known_findings.txt lists repaired defects'
    json.dump(m, open(os.path.join(VERIF, 'MANIFEST.json'), 'w'), indent=1)


main()
