"""Component checks: a small TLA+ spec enumerates a case-rich function
completely (TLC checks the property on the whole enumeration); every
enumerated case is then executed against the real code and compared."""
import json, os, shutil, re, glob


def tlc_enum(ctx, mod, spec, cfg_text, consts=None, env=None):
    """run TLC on a component spec with -dump; returns the list of decoded js rows"""
    d = os.path.join(ctx.tmp, 'enum-' + spec)
    os.makedirs(d, exist_ok=True)
    for f in glob.glob(os.path.join(mod.VERIF, 'spec', '*.tla')):
        shutil.copy(f, d)
    open(os.path.join(d, 'run.cfg'), 'w').write(cfg_text)
    # (-maxSetSize: the thorough client-state enumeration is a set of 17^5 programs; TLC's default bound is 10^6)
    out = mod.run(['tlc', '-workers', '8', '-maxSetSize', '4000000', '-metadir', os.path.join(d, 'meta'), '-dump', os.path.join(d, 'dump'),
                   '-config', 'run.cfg', spec + '.tla'], 3000, cwd=d, ok=(0, 12, 13), env=dict(mod.ENV, **(env or {})))
    if 'No error has been found' not in out:
        import sys
        sys.stderr.write(out[:3000] + '\n...\n' + out[-3000:])
        mod.die('TLC reports an error in component spec %s (not a verdict about the code)' % spec)
    m = re.search(r'(\d+) states generated, (\d+) distinct states found', out)
    ctx.cov['transitions'] += int(m.group(1))
    ctx.cov['states'] += int(m.group(2))
    rows = [json.loads(json.loads(l.split('js = ', 1)[1])) for l in open(os.path.join(d, 'dump.dump')) if 'js = "{' in l]
    shutil.rmtree(d, ignore_errors=True)
    return rows


def violation(ctx, prop, name, payload):
    rdir = os.path.join(os.environ.get('VERIF_EVIDENCE_DIR') or os.path.join(ctx.verif, 'out'), 'replays')
    os.makedirs(rdir, exist_ok=True)
    path = os.path.join(rdir, '%s-%s-%d.json' % (prop, ctx.tier, len(ctx.violations) + 1))
    json.dump(dict(property=prop, key=name, component=True, **payload), open(path, 'w'), indent=1)
    ctx.violations.append(path)


def mwtable(ctx, prop, mod):
    ctx.verif = mod.VERIF
    mod.build(ctx)
    rows = tlc_enum(ctx, mod, 'Middleware', 'SPECIFICATION Spec\nINVARIANTS AdmitIff RefusalExact\nCHECK_DEADLOCK FALSE\n')
    rf = os.path.join(ctx.tmp, 'rows.ndjson')
    with open(rf, 'w') as f:
        for r in rows:
            f.write(json.dumps(r) + '\n')
    k = 5 if ctx.tier == 'quick' else 200
    res = os.path.join(ctx.tmp, 'mw.json')
    mod.run([ctx.bin, 'mwtable', '-rows', rf, '-k', str(k), '-seed', str(ctx.seed), '-out', res], 3000)
    r = json.load(open(res))
    ctx.cov['traces_validated_against_impl'] += r['executions']
    ctx.cov['rows'] = r['rows']
    ctx.cov['executions'] = r['executions']
    ctx.cov['login_round_trips'] = r['followed']
    ctx.cov['exhaustive'] = True
    ctx.cov['samples'] = rows[:2] + rows[400:402]
    if r['mismatches']:
        # determinism: run again with the same seed
        mod.run([ctx.bin, 'mwtable', '-rows', rf, '-k', str(k), '-seed', str(ctx.seed), '-out', res], 3000)
        r2 = json.load(open(res))
        if r2['mismatches'] and r2['mismatches'][0] == r['mismatches'][0]:
            violation(ctx, prop, 'mwtable:' + r['mismatches'][0]['field'], dict(mismatches=r['mismatches'][:20],
                      replay_cmd='abdrive mwtable -rows <rows from spec/Middleware.tla> -k %d -seed %d' % (k, ctx.seed)))
        else:
            mod.die('mwtable mismatch did not reproduce')


def clientstate(ctx, prop, mod):
    ctx.verif = mod.VERIF
    mod.build(ctx)
    maxlen = 4 if ctx.tier == 'quick' else 5
    rows = tlc_enum(ctx, mod, 'ClientState',
                    'SPECIFICATION Spec\nCONSTANTS MaxLen = %d\nINVARIANTS ExactlyOnce InOrderSeparated BeforeFirstByte StableReads\n'
                    'CHECK_DEADLOCK FALSE\n' % maxlen)
    rf = os.path.join(ctx.tmp, 'rows.ndjson')
    with open(rf, 'w') as f:
        for r in rows:
            f.write(json.dumps(r) + '\n')
    res = os.path.join(ctx.tmp, 'cs.json')
    mod.run([ctx.bin, 'csprog', '-rows', rf, '-out', res], 3000)
    r = json.load(open(res))
    ctx.cov['programs'] = r['rows']
    ctx.cov['executions'] = r['executions']
    ctx.cov['traces_validated_against_impl'] += r['executions']
    ctx.cov['max_program_length'] = maxlen
    ctx.cov['wrapper_stacks'] = ['', 'U', 'W', 'UW', 'WU']
    ctx.cov['exhaustive'] = True
    ctx.cov['samples'] = [rows[i] for i in (1, len(rows) // 2, len(rows) - 1)]
    if r['mismatches']:
        violation(ctx, prop, 'clientstate:' + r['mismatches'][0]['field'], dict(mismatches=r['mismatches'][:10]))
        return
    # long seeded-random programs, judged by the same spec
    n = 400 if ctx.tier == 'quick' else 20000
    pf = os.path.join(ctx.tmp, 'progs.ndjson')
    mod.run([ctx.bin, 'csrandom', '-out', pf, '-n', str(n), '-len', '40', '-seed', str(ctx.seed)], 600)
    rows2 = tlc_enum(ctx, mod, 'ClientStateRand',
                     'SPECIFICATION SpecR\nCONSTANTS MaxLen = 0\nINVARIANTS ExactlyOnce InOrderSeparated BeforeFirstByte StableReads\n'
                     'CHECK_DEADLOCK FALSE\n', env=dict(VERIF_PROGS=pf))
    with open(rf, 'w') as f:
        for r0 in rows2:
            f.write(json.dumps(r0) + '\n')
    mod.run([ctx.bin, 'csprog', '-rows', rf, '-out', res], 3000)
    r = json.load(open(res))
    ctx.cov['random_long_programs'] = r['rows']
    ctx.cov['traces_validated_against_impl'] += r['executions']
    if r['mismatches']:
        violation(ctx, prop, 'clientstate-long:' + r['mismatches'][0]['field'], dict(mismatches=r['mismatches'][:10]))


def redirect(ctx, prop, mod):
    ctx.verif = mod.VERIF
    mod.build(ctx)
    maxlen, k, frac = (4, 2, 0.3) if ctx.tier == 'quick' else (5, 3, 0.3)
    rows = tlc_enum(ctx, mod, 'RedirectGuard',
                    'SPECIFICATION Spec\nCONSTANTS MaxLen = %d\nINVARIANTS NoOffSite StillUseful\nCHECK_DEADLOCK FALSE\n' % maxlen)
    rf = os.path.join(ctx.tmp, 'rows.ndjson')
    with open(rf, 'w') as f:
        for r in rows:
            f.write(json.dumps(r) + '\n')
    res = os.path.join(ctx.tmp, 'rg.json')
    cmd = [ctx.bin, 'redir', '-rows', rf, '-k', str(k), '-seed', str(ctx.seed), '-frac', str(frac), '-out', res]
    mod.run(cmd, 3000)
    r = json.load(open(res))
    ctx.cov.update(strings=r['rows'], executions=r['executions'], oracle_checks=r['oracle_checks'], max_string_length=maxlen,
                   flows=['password', 'password-json', 'otp', 'totp', 'sms', 'totp-q', 'sms-q', 'oauth2', 'oauth2-json', 'oauth2-error', 'oauth2-error-json', 'password-wrong', 'totp-f', 'sms-f'], exhaustive=True,
                   resolver_disagreements=r['resolver_disagreements'])
    ctx.cov['traces_validated_against_impl'] += r['executions']
    ctx.cov['samples'] = [x for x in rows if x['follows']][:2] + [x for x in rows if x['resolve'] == 'offsite'][:2]
    if r['dead']:
        mod.die('redirect driver: %d logins did not succeed (dead driver, not a verdict)' % r['dead'])
    if r['resolver_disagreements']:
        mod.die('the TLA+ Resolve and the Go browser oracle disagree on %d strings (machinery problem, not a verdict)'
                % r['resolver_disagreements'])
    if r['mismatches']:
        mod.run(cmd, 3000)
        r2 = json.load(open(res))
        if r2['mismatches'] and r2['mismatches'][0] == r['mismatches'][0]:
            violation(ctx, prop, 'redirect:%s:%s' % (r['mismatches'][0]['flow'], r['mismatches'][0]['kind']),
                      dict(mismatches=r['mismatches'][:20]))
        else:
            mod.die('redirect mismatch did not reproduce')


def rule_vectors(seed, n):
    import random
    rng = random.Random(seed)
    vs = [dict(minLength=8, maxLength=0, minLetters=0, minUpper=1, minLower=1, minNumeric=1, minSymbols=1, allowWhitespace=False),
          dict(minLength=0, maxLength=0, minLetters=0, minUpper=0, minLower=0, minNumeric=0, minSymbols=0, allowWhitespace=True),
          dict(minLength=0, maxLength=0, minLetters=0, minUpper=0, minLower=0, minNumeric=0, minSymbols=0, allowWhitespace=False),
          dict(minLength=2, maxLength=4, minLetters=2, minUpper=1, minLower=1, minNumeric=1, minSymbols=1, allowWhitespace=True)]
    # every single bound alone at 1 and 2, then seeded random vectors
    for key in ('minLength', 'maxLength', 'minLetters', 'minUpper', 'minLower', 'minNumeric', 'minSymbols'):
        for val in (1, 2, 3):
            v = dict(vs[1]); v[key] = val; vs.append(v)
    while len(vs) < n:
        vs.append(dict(minLength=rng.randint(0, 5), maxLength=rng.choice([0, 0, 2, 3, 4, 5, 6]), minLetters=rng.randint(0, 2),
                       minUpper=rng.randint(0, 2), minLower=rng.randint(0, 2), minNumeric=rng.randint(0, 2),
                       minSymbols=rng.randint(0, 2), allowWhitespace=rng.random() < 0.5))
    return vs[:n]


def rules(ctx, prop, mod):
    """policy clause of C19 (run in addition to the composite-model check)"""
    maxlen, nvec, k = (4, 40, 2) if ctx.tier == 'quick' else (5, 120, 3)
    vf = os.path.join(ctx.tmp, 'vectors.ndjson')
    with open(vf, 'w') as f:
        for v in rule_vectors(ctx.seed, nvec):
            f.write(json.dumps(v) + '\n')
    rows = tlc_enum(ctx, mod, 'Rules', 'SPECIFICATION Spec\nCONSTANTS MaxLen = %d\nINVARIANT PolicyExact\nCHECK_DEADLOCK FALSE\n' % maxlen,
                    env=dict(VERIF_RULES=vf))
    rf = os.path.join(ctx.tmp, 'rule-rows.ndjson')
    with open(rf, 'w') as f:
        for r in rows:
            f.write(json.dumps(r) + '\n')
    res = os.path.join(ctx.tmp, 'rules.json')
    mod.run([ctx.bin, 'rules', '-rows', rf, '-k', str(k), '-seed', str(ctx.seed), '-out', res], 3000)
    r = json.load(open(res))
    ctx.cov.update(rule_rows=r['rows'], rule_evaluations=r['executions'], rule_vectors=nvec, rule_max_string_length=maxlen,
                   rule_rows_accepted=r['accepted'])
    ctx.cov['traces_validated_against_impl'] += r['executions']
    ctx.cov['samples'].append(dict(source='Rules.tla row', row=rows[len(rows) // 3]))
    if r['accepted'] == 0 or r['accepted'] == r['executions']:
        mod.die('rules enumeration is vacuous (all rows accepted or all rejected)')
    if r['mismatches']:
        violation(ctx, prop, 'rules:policy', dict(mismatches=r['mismatches'][:20]))


def codecs(ctx, prop, mod):
    """codec clauses of C07 (remember cookie) and C14 (OAuth2 PID)"""
    maxuid = 4 if ctx.tier == 'quick' else 6
    cfg = ('SPECIFICATION Spec\nCONSTANTS MaxUid = %d\n NonceLen = 2\n UidAlphabet = %s\nINVARIANTS RoundTrip %s\nCHECK_DEADLOCK FALSE\n')
    # small alphabet: round trip and injectivity decided by TLC itself
    rows = tlc_enum(ctx, mod, 'Codecs', cfg % (maxuid, '{"a", ";", ","}', 'Injective'))
    if prop == 'C14':
        # wider alphabet (characters an escaping scheme would introduce): TLC checks the round trip, the
        # executor checks round trip and injectivity of the real functions over the whole enumeration
        rows += [r for r in tlc_enum(ctx, mod, 'Codecs', cfg % (4 if ctx.tier == 'quick' else 5, '{"a", ";", "%", "3", "B", "2"}', ''))
                 if r['kind'] == 'pid']
    want = 'pid' if prop == 'C14' else 'tok'
    rf = os.path.join(ctx.tmp, 'codec-rows.ndjson')
    with open(rf, 'w') as f:
        for r in rows:
            if r['kind'] == want:
                f.write(json.dumps(r) + '\n')
    res = os.path.join(ctx.tmp, 'codecs.json')
    mod.run([ctx.bin, 'codecs', '-rows', rf, '-k', '8' if ctx.tier == 'quick' else '64', '-out', res], 3000)
    r = json.load(open(res))
    ctx.cov.update({('codec_' + k): v for k, v in r.items() if k != 'mismatches'})
    ctx.cov['traces_validated_against_impl'] += r['pid_rows'] + r['cookie_round_trips']
    ctx.cov['samples'].append(dict(source='Codecs.tla row', row=[x for x in rows if x['kind'] == want][-1]))
    if r['mismatches']:
        violation(ctx, prop, 'codec:' + r['mismatches'][0]['kind'], dict(mismatches=r['mismatches'][:20]))


def faults(ctx, prop, mod):
    """C18: fault enumeration inside random scenarios, judged by TLC (Trace.tla fault clauses)"""
    mod.build(ctx)
    plan = [('full', 60, 25, 0.4, False), ('core', 60, 25, 0.4, False), ('twofa', 30, 20, 0.4, False)] if ctx.tier == 'quick' else \
           [('full', 300, 30, 0.5, True), ('core', 300, 30, 0.5, True), ('twofa', 150, 25, 0.5, True), ('oauth', 150, 20, 0.5, True)]
    combos, evals = set(), 0
    # design level: the specification's fault model (every request of the base family also with each of its
    # backend calls failing, both error handlers, both response modes) satisfies the C18 clauses on every transition
    OP = {'Pids': '{"u1","o_pa_x","o_pa_y","o_pb_x","o_pb_y"}'}
    mcq = [('f_login', {}), ('f_remember', {}), ('f_recover', {}), ('f_register', {}), ('f_twofa', {}), ('f_smsswitch', {}),
           ('f_tfasetup', {}), ('f_otp', {'MaxIss': 7}), ('f_oauth', OP), ('f_expire', {})]
    for fam, consts in mcq:
        c = dict(consts, MaxDepth=3 if ctx.tier == 'quick' else 4)
        if ctx.tier == 'thorough' and fam in ('f_register', 'f_smsswitch', 'f_expire', 'f_tfasetup', 'f_remember', 'f_oauth'):
            c['MaxDepth'] = 5
        mod.tlc_mc(ctx, fam, c, extra=['INVARIANT CallsBound'])
    # TLC behaviours of the fault model replayed into the code
    simf = [('f_login', {}), ('f_twofa', {}), ('f_recover', {})] if ctx.tier == 'quick' else mcq
    scs = []
    for fam, consts in simf:
        scs += mod.tlc_sim(ctx, fam, consts, 40 if ctx.tier == 'quick' else 300, 8 if ctx.tier == 'quick' else 12)
    for sc in scs:
        if 'o_pa_x' in json.dumps(sc['cfg']) or 'oauth2' in sc['cfg']['modules']:
            sc['pids'] = ['u1', 'o_pa_x', 'o_pa_y', 'o_pb_x', 'o_pb_y']
    tf = mod.exec_scenarios(ctx, scs, 'faultsim')
    ents, lines = mod.validate(ctx, tf)
    ctx.cov['replayed_tlc_fault_behaviours'] = len(scs)
    dev = 0
    mod.judge(ctx, prop, ents, lines, 'faults:tlc')
    from scripts import SCRIPTS
    sf = os.path.join(ctx.tmp, 'fault-scripts.ndjson')
    # every script under both error handlers and with / without the lock module (lock saves the
    # user object other handlers mutated, which can mask a missing save)
    variants = []
    for s0 in SCRIPTS.get('C18', []):
        for ew in (False, True):
            for lk in (False, True):
                v = json.loads(json.dumps(s0))
                mods = [m for m in v['cfg']['modules'] if m != 'lock']
                if lk:
                    mods.insert(1, 'lock')
                v['cfg']['modules'], v['cfg']['errWrites'] = mods, ew
                v['name'] += ':ew=%d:lock=%d' % (ew, lk)
                variants.append(v)
    with open(sf, 'w') as f:
        for s0 in variants:
            f.write(json.dumps(s0) + '\n')
    ctx.cov['scripted_scenarios'] = len(variants)
    for fam, n, depth, p, ex in [('scripted', 0, 0, 0, True)] + plan:
        tf = os.path.join(ctx.tmp, 'faults-%s.ndjson' % fam)
        cmd = [ctx.bin, 'faults', '-family', fam, '-n', str(n), '-depth', str(depth), '-p', str(p), '-seed', str(ctx.seed), '-out', tf]
        if fam == 'scripted':
            cmd = [ctx.bin, 'faults', '-scen', sf, '-out', tf]
        elif ex:
            cmd.append('-exhaustive')
        mod.run(cmd, 3000)
        ents, lines = mod.validate(ctx, tf)
        for l in lines:
            if l['kind'] == 'ev' and l['e'].get('fault', 0) > 0 and l['resp'].get('faultHit'):
                evals += 1
                calls = l['resp'].get('calls') or [{}]
                combos.add((l['e']['act'], calls[-1].get('kind'), l['e']['fault'], l['e']['faultE']))
        if not ctx.cov['samples']:
            fl = [l for l in lines if l['kind'] == 'ev' and l['e'].get('fault', 0) > 0][:3]
            ctx.cov['samples'] = [dict(e={k: v for k, v in l['e'].items() if v not in (0, 'none', False, '')},
                                       calls=[c['kind'] for c in (l['resp'].get('calls') or [])], outcome=l['resp']['class']) for l in fl]
        mod.judge(ctx, prop, ents, lines, 'faults:' + fam)
        if ctx.violations:
            break
    ctx.cov['evaluations'] = evals
    ctx.cov['fault_model_deviations_advisory'] = ctx.cov.get('advisory_model_deviations', 0)
    ctx.cov['distinct_nontrivial'] = len(combos)
    ctx.cov['rule'] = ('random scenarios; at a request step the world is forked, the request is run fault-free to learn its backend calls, '
                       'then re-run with a failure injected at call k (quick: 1-2 seeded k; thorough: every k and error kind); a case is '
                       'distinct by (action, failing call kind, call index, error kind) and non-trivial when the injected failure was actually hit')
    ctx.cov['fault_sites'] = sorted('%s/%s#%d/%s' % c for c in combos)[:400]
    if evals == 0:
        mod.die('fault driver injected nothing (dead driver)')


def faultscan(ctx, prop, mod):
    """C17 under backend failures: the error paths log and store too. Random scenarios with injected failures
    (a mail that could not be sent is still a secret the harness knows); every faulted step is scanned."""
    plan = [('core', 40, 25, 0.5, False), ('full', 40, 25, 0.5, False)] if ctx.tier == 'quick' else \
           [('core', 300, 30, 0.5, True), ('full', 300, 30, 0.5, True), ('twofa', 100, 25, 0.5, True)]
    n = 0
    for fam, num, depth, p, ex in plan:
        tf = os.path.join(ctx.tmp, 'faultscan-%s.ndjson' % fam)
        cmd = [ctx.bin, 'faults', '-family', fam, '-n', str(num), '-depth', str(depth), '-p', str(p), '-seed', str(ctx.seed), '-out', tf]
        if ex:
            cmd.append('-exhaustive')
        mod.run(cmd, 3000)
        ents, lines = mod.validate(ctx, tf)
        n += sum(1 for l in lines if l['kind'] == 'ev' and l['e'].get('fault', 0) > 0 and l['resp'].get('faultHit'))
        mod.judge(ctx, prop, ents, lines, 'faultscan:' + fam)
        if ctx.violations:
            break
    ctx.cov['faulted_steps_scanned'] = n


def noninterference(ctx, prop, mod):
    """C16: NI as a state invariant of the spec (TLC, every reachable state) + forked paired replay on the code"""
    mod.build(ctx)
    fams = [('lock', {}), ('recover', {}), ('otp', {'MaxIss': 7})] + ([('login', {})] if ctx.tier == 'thorough' else [])
    for fam, consts in fams:
        c = dict(consts)
        if ctx.tier == 'thorough':
            c['MaxDepth'] = 7
        mod.tlc_mc(ctx, fam, c, extra=['INVARIANT NoInterference'])
    plan = [('core', 150, 25), ('full', 60, 25)] if ctx.tier == 'quick' else [('core', 3000, 40), ('full', 600, 40), ('twofa', 300, 30)]
    pairs, by = 0, {}
    for fam, n, depth in plan:
        res = os.path.join(ctx.tmp, 'ni-%s.json' % fam)
        mod.run([ctx.bin, 'ni', '-family', fam, '-n', str(n), '-depth', str(depth), '-seed', str(ctx.seed), '-out', res], 3000)
        r = json.load(open(res))
        pairs += r['pairs']
        for k, v in r['by_clause'].items():
            by[k] = by.get(k, 0) + v
        for d in r['diffs'][:3]:
            # determinism: re-execute the recorded pair twice
            df = os.path.join(ctx.tmp, 'ni-diff.json')
            json.dump(d, open(df, 'w'))
            import subprocess
            codes = [subprocess.run([ctx.bin, 'ni', '-replay', df], stdout=subprocess.PIPE, stderr=subprocess.STDOUT, env=mod.ENV).returncode
                     for _ in range(2)]
            if codes == [1, 1]:
                violation(ctx, prop, 'ni:' + d['clause'], dict(diff=d, replay_cmd='abdrive ni -replay <this file\'s diff object>'))
                break
            else:
                print('check: NI difference did not reproduce twice; not a verdict', file=__import__('sys').stderr)
        if ctx.violations:
            break
    ctx.cov['paired_runs'] = pairs
    ctx.cov['pairs_by_clause'] = by
    ctx.cov['traces_validated_against_impl'] += pairs
    ctx.cov['samples'] = [dict(clause=k, pairs=v) for k, v in sorted(by.items())] or ['none']
    if pairs == 0 or len(by) < 3:
        mod.die('paired replay exercised %d clauses only (dead driver)' % len(by))


def concurrency(ctx, prop, mod):
    """C20: independence of disjoint clients as a TLC invariant + concurrent scripts under the race detector"""
    import glob as g
    mod.build(ctx, race=True)
    depth = 4 if ctx.tier == 'quick' else 5
    mod.tlc_mc(ctx, 'indep', dict(MaxDepth=depth, MaxNow=2), extra=['INVARIANT Independence'])
    rounds, clients, steps = (12, 6, 25) if ctx.tier == 'quick' else (200, 8, 40)
    res = os.path.join(ctx.tmp, 'conc.json')
    logp = os.path.join(ctx.tmp, 'race')
    env = dict(mod.ENV, GORACE='log_path=%s halt_on_error=0' % logp)
    ccmd = [ctx.bin, 'conc', '-rounds', str(rounds), '-clients', str(clients), '-depth', str(steps), '-seed', str(ctx.seed), '-out', res]
    cout = mod.run(ccmd, 3000, env=env, ok=(0, 66, 2))
    if 'fatal error: concurrent map' in cout:
        # the Go runtime's own detector killed the process: unsynchronised access to a map from two requests.
        # That is a data race; it counts against the library when a frame of the crash lies in the repository.
        repo = os.environ.get('VERIF_REPO') or '/repo'
        if repo + '/' in cout:
            violation(ctx, prop, 'race:library', dict(report=cout[cout.index('fatal error: concurrent map'):][:6000], replay_cmd=' '.join(ccmd[1:])))
            return
        mod.die('concurrent map access in harness code only (machinery problem, not a verdict)')
    if not os.path.exists(res):
        import sys
        sys.stderr.write(cout[-3000:])
        mod.die('concurrent driver failed')
    r = json.load(open(res))
    ctx.cov.update(concurrent_rounds=r['rounds'], clients_per_round=r['clients'], transcript_lines_compared=r['steps'],
                   race_detector=True, default_components=['defaults.Router', 'defaults.HTTPBodyReader', 'defaults.Responder',
                                                           'defaults.Redirector', 'defaults.ErrorHandler', 'defaults.Logger',
                                                           'defaults.SMTPMailer', 'defaults.LogMailer', 'mail goroutines'])
    ctx.cov['traces_validated_against_impl'] += r['rounds'] * r['clients']
    ctx.cov['samples'] = ['round of %d clients x %d scripted steps over one instance, each transcript compared with the solo run' % (clients, steps)]
    reports = []
    for f in g.glob(logp + '.*'):
        reports.append(open(f).read())
    lib = [x for x in reports if '/repo/' in x or (os.environ.get('VERIF_REPO') and os.environ['VERIF_REPO'] in x)]
    if lib:
        violation(ctx, prop, 'race:library', dict(report=lib[0][:6000], replay_cmd='abdrive(-race) conc -rounds %d -clients %d -depth %d -seed %d'
                                                                                   % (rounds, clients, steps, ctx.seed)))
        return
    if reports:
        import sys
        sys.stderr.write(reports[0][:3000])
        mod.die('data race in harness code only (machinery problem, not a verdict)')
    # below the request: every schedule of two in-flight requests at backend-call granularity (spec/Schedules.tla),
    # replayed deterministically (the store's gate serialises the two requests as the schedule says)
    maxcalls = 4 if ctx.tier == 'quick' else 6
    cfgt = 'SPECIFICATION Spec\nCONSTANTS\n  MaxCalls = %d\n  SharedScratch = %s\nINVARIANT Independent\nCHECK_DEADLOCK FALSE\n'
    rows = tlc_enum(ctx, mod, 'Schedules', cfgt % (maxcalls, 'FALSE'))
    # anti-vacuity: with a cell shared between two calls TLC must find a schedule that breaks Independent
    d = os.path.join(ctx.tmp, 'sched-neg')
    os.makedirs(d, exist_ok=True)
    shutil.copy(os.path.join(mod.VERIF, 'spec', 'Schedules.tla'), d)
    open(os.path.join(d, 'run.cfg'), 'w').write(cfgt % (3, 'TRUE'))
    outn = mod.run(['tlc', '-workers', '4', '-metadir', os.path.join(d, 'meta'), '-config', 'run.cfg', 'Schedules.tla'], 600, cwd=d, ok=(0, 12, 13))
    if 'Invariant Independent is violated' not in outn:
        mod.die('Schedules.tla: the negative control (shared scratch cell) did not violate Independent: the invariant is vacuous')
    shutil.rmtree(d, ignore_errors=True)
    rf = os.path.join(ctx.tmp, 'schedules.ndjson')
    with open(rf, 'w') as f:
        for row in rows:
            f.write(json.dumps(row) + '\n')
    sres = os.path.join(ctx.tmp, 'sched.json')
    scmd = [ctx.bin, 'sched', '-rows', rf, '-out', sres, '-seed', str(ctx.seed), '-offsets', '2' if ctx.tier == 'quick' else '4',
            '-maxper', '0' if ctx.tier == 'quick' else '800']   # thorough: pairs with more than 800 schedules are sampled evenly (seeded)
    mod.run(scmd, 3000, env=env, ok=(0, 66))
    sr = json.load(open(sres))
    ctx.cov.update(schedules_enumerated=len(rows), schedule_max_calls=maxcalls, request_pairs_scheduled=sr['pairs'],
                   scheduled_executions=sr['executions'], requests_longer_than_bound=sr['clamped'])
    ctx.cov['traces_validated_against_impl'] += sr['executions']
    if sr['diffs']:
        mod.run(scmd, 3000, env=env, ok=(0, 66))      # deterministic: must recur
        sr2 = json.load(open(sres))
        if sr2['diffs']:
            violation(ctx, prop, 'crosstalk:schedule', dict(diff=sr['diffs'][0], replay_cmd=' '.join(scmd[1:])))
            return
        print('check: schedule difference did not recur; not a verdict', file=__import__('sys').stderr)
    reports = [open(f).read() for f in g.glob(logp + '.*')]
    lib = [x for x in reports if '/repo/' in x or (os.environ.get('VERIF_REPO') and os.environ['VERIF_REPO'] in x)]
    if lib:
        violation(ctx, prop, 'race:library', dict(report=lib[0][:6000], replay_cmd=' '.join(scmd[1:])))
        return
    if r['diffs']:
        # re-run for determinism of the verdict: a transcript difference must show up again
        mod.run([ctx.bin, 'conc', '-rounds', str(rounds), '-clients', str(clients), '-depth', str(steps), '-seed', str(ctx.seed), '-out', res],
                3000, env=env, ok=(0, 66))
        r2 = json.load(open(res))
        if r2['diffs']:
            violation(ctx, prop, 'crosstalk:transcript', dict(diff=r['diffs'][0]))
        else:
            print('check: transcript difference did not recur; not a verdict', file=__import__('sys').stderr)
