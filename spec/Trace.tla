-------------------------------- MODULE Trace --------------------------------
(***************************************************************************)
(* Trace validation: every step recorded from the real code (by the random *)
(* driver, by scripted scenarios, or by replaying TLC-generated behaviours) *)
(* must be the step the specification takes from the observed pre-state,   *)
(* field by field, and must satisfy every property predicate of Props.tla. *)
(*                                                                         *)
(* The trace file is ndjson: "init" lines (configuration + initial         *)
(* projection) start a new trace, "ev" lines carry the abstract event, the *)
(* projected post-state and the classified response.  Divergences and      *)
(* property violations are collected in `rep` and written as ndjson to     *)
(* VERIF_REPORT; validation never stops at the first divergence (the       *)
(* observed state is adopted), so the rest of every trace is still checked.*)
(***************************************************************************)
EXTENDS Props, Json, IOUtils

VARIABLES l, rep, saved, adv
tvars == <<st, cfg, resp, l, rep, saved, adv>>

T == ndJsonDeserialize(IOEnv.VERIF_TRACE)

ToSet(s) == {s[i] : i \in 1..Len(s)}

CfgOf(line) == line.cfg

\* the Go event record already has every field the spec reads; whether a rejected
\* token was well formed is known once the request has been built
EvOf(line) == IF "wf" \in DOMAIN line.resp THEN [wf |-> line.resp.wf] @@ line.e ELSE [wf |-> FALSE] @@ line.e

-----------------------------------------------------------------------------
(* observed projection  ->  specification state *)

UserFromObs(o, c, now) ==
  [ex |-> o.ex, pw |-> o.pw, conf |-> o.conf, cTok |-> o.cTok, rTok |-> o.rTok,
   rExp |-> IF o.rTok = 0 THEN NEVER ELSE IF o.rLeft < 0 THEN now - 1 ELSE now + o.rLeft,
   att |-> o.att,
   last |-> IF o.winLeft < 0 THEN NEVER ELSE now - (Thr(c.lockWindow) - o.winLeft),
   lockedUntil |-> IF o.lockLeft < 0 THEN NEVER ELSE now + o.lockLeft,
   otps |-> ToSet(o.otps), rcg |-> o.rcg, rcLeft |-> ToSet(o.rcLeft),
   totp |-> o.totp, totpLast |-> o.totpLast, sms |-> o.sms, arb |-> ToSet(o.arb)]

SessFromObs(o, c, now) ==
  [uid |-> o.uid, half |-> o.half, twofa |-> o.twofa,
   totpPend |-> o.totpPend, smsPend |-> o.smsPend, smsCode |-> o.smsCode,
   smsLast |-> IF o.smsFresh = -2 THEN NEVER ELSE IF o.smsFresh = 1 THEN now ELSE now - 1,
   totpSetup |-> o.totpSetup, smsNum |-> o.smsNum,
   oState |-> o.oState, oHas |-> o.oHas, oRm |-> o.oRm, oRedir |-> o.oRedir,
   tfaTok |-> o.tfaTok, tfaAuthed |-> o.tfaAuthed,
   lastAct |-> IF o.expLeft = -2 THEN NEVER
               ELSE IF o.expLeft < 0 THEN now - Thr(c.expireAfter) - 1
               ELSE now - (Thr(c.expireAfter) - o.expLeft),
   app1 |-> o.app1, app2 |-> o.app2]

FromObs(o, c, iss, scp, spent) ==
  [now |-> o.now,
   db |-> [p \in Pids |-> IF p \in DOMAIN o.db THEN UserFromObs(o.db[p], c, o.now) ELSE NoUser],
   rm |-> {[o |-> t.o, id |-> t.id] : t \in ToSet(o.rm)},
   sess |-> [b \in Browsers |-> IF b \in DOMAIN o.sess THEN SessFromObs(o.sess[b], c, o.now) ELSE EmptySess],
   cookie |-> [b \in Browsers |-> IF b \in DOMAIN o.cookie THEN o.cookie[b] ELSE 0],
   iss |-> [k \in Kinds |-> iss[k]],
   scPhone |-> scp, spent |-> spent]

-----------------------------------------------------------------------------
(* specification state  ->  the observable projection (what Go's Project emits) *)

Clip(x) == IF x < -1 THEN -1 ELSE x

UserObs(u, c, now) ==
  [ex |-> u.ex, pw |-> u.pw, conf |-> u.conf, cTok |-> u.cTok, rTok |-> u.rTok,
   rLeft |-> IF u.rTok = 0 THEN -1 ELSE Clip(u.rExp - now),
   att |-> u.att, winLeft |-> Clip(Thr(c.lockWindow) - (now - u.last)),
   lockLeft |-> Clip(u.lockedUntil - now),
   otps |-> u.otps, rcg |-> u.rcg, rcLeft |-> u.rcLeft, totp |-> u.totp, totpLast |-> u.totpLast,
   sms |-> u.sms, arb |-> u.arb]

SessObs(s, c, now) ==
  [uid |-> s.uid, half |-> s.half, twofa |-> s.twofa, totpPend |-> s.totpPend,
   smsPend |-> s.smsPend, smsCode |-> s.smsCode,
   smsFresh |-> IF s.smsLast = NEVER THEN -2 ELSE IF now - s.smsLast < 1 THEN 1 ELSE 0,
   totpSetup |-> s.totpSetup, smsNum |-> s.smsNum, oState |-> s.oState, oHas |-> s.oHas,
   oRm |-> s.oRm, oRedir |-> s.oRedir, tfaTok |-> s.tfaTok, tfaAuthed |-> s.tfaAuthed,
   expLeft |-> IF s.lastAct = NEVER THEN -2 ELSE Clip(Thr(c.expireAfter) - (now - s.lastAct)),
   app1 |-> s.app1, app2 |-> s.app2]

UserFields == {"ex", "pw", "conf", "cTok", "rTok", "rLeft", "att", "winLeft", "lockLeft",
               "otps", "rcg", "rcLeft", "totp", "totpLast", "sms", "arb"}
SetFields  == {"otps", "rcLeft", "arb"}
SessFields == {"uid", "half", "twofa", "totpPend", "smsPend", "smsCode", "smsFresh", "totpSetup",
               "smsNum", "oState", "oHas", "oRm", "oRedir", "tfaTok", "tfaAuthed", "expLeft",
               "app1", "app2"}

ObsVal(o, f) == IF f \in SetFields THEN ToSet(o[f]) ELSE o[f]

\* the set of <<group, who, expected, observed>> differences
Diff(S, c, o) ==
  LET dbd == {<<"db." \o f, p, UserObs(S.db[p], c, S.now)[f], ObsVal(o.db[p], f)>> :
                 <<p, f>> \in {x \in (Pids \cap DOMAIN o.db) \X UserFields :
                     UserObs(S.db[x[1]], c, S.now)[x[2]] # ObsVal(o.db[x[1]], x[2])}}
      sd  == {<<"sess." \o f, b, SessObs(S.sess[b], c, S.now)[f], o.sess[b][f]>> :
                 <<b, f>> \in {x \in (Browsers \cap DOMAIN o.sess) \X SessFields :
                     SessObs(S.sess[x[1]], c, S.now)[x[2]] # o.sess[x[1]][x[2]]}}
      ud  == {<<"sess.unknown", b, <<>>, o.sess[b].unknown>> :
                 b \in {x \in (Browsers \cap DOMAIN o.sess) : o.sess[x].unknown # <<>>}}
      cd  == {<<"cookie", b, S.cookie[b], o.cookie[b]>> :
                 b \in {x \in (Browsers \cap DOMAIN o.cookie) : S.cookie[x] # o.cookie[x]}}
      rmo == {[o |-> t.o, id |-> t.id] : t \in ToSet(o.rm)}
      rd  == IF S.rm = rmo THEN {} ELSE {<<"rm", "-", S.rm, rmo>>}
      xd  == {<<"db.extra", p, FALSE, TRUE>> : p \in {x \in DOMAIN o.db : x \notin Pids /\ o.db[x].ex}}
      nd  == IF S.now = o.now THEN {} ELSE {<<"now", "-", S.now, o.now>>}
  IN  dbd \cup sd \cup ud \cup cd \cup rd \cup xd \cup nd

MailsObs(ms) == {[to |-> ToSet(m.to), kind |-> m.kind, tok |-> m.tok] : m \in ToSet(ms)}
MailsSpec(ms) == ms
SmsObsSet(ss) == {[phone |-> s.phone, code |-> s.code] : s \in ToSet(ss)}

CallsObs(o) == IF "acalls" \in DOMAIN o THEN [i \in 1..Len(o.acalls) |-> [kind |-> o.acalls[i].kind, key |-> o.acalls[i].key]] ELSE <<>>

RespDiff(r, o) ==
     (IF r.class = o.class THEN {} ELSE {<<"resp.class", "-", r.class, o.class>>})
  \cup (IF r.loc = o.loc THEN {} ELSE {<<"resp.loc", "-", r.loc, o.loc>>})
  \cup (IF r.ran = o.ran THEN {} ELSE {<<"resp.ran", "-", r.ran, o.ran>>})
  \cup (IF r.seenUser = o.seenUser THEN {} ELSE {<<"resp.seenUser", "-", r.seenUser, o.seenUser>>})
  \cup (IF r.seenKeys = ToSet(o.seenKeys) THEN {} ELSE {<<"resp.seenKeys", "-", r.seenKeys, ToSet(o.seenKeys)>>})
  \cup (IF MailsSpec(r.mails) = MailsObs(o.mails) THEN {} ELSE {<<"resp.mails", "-", MailsSpec(r.mails), MailsObs(o.mails)>>})
  \cup (IF r.sms = SmsObsSet(o.sms) THEN {} ELSE {<<"resp.sms", "-", r.sms, SmsObsSet(o.sms)>>})
  \* the backend call protocol (advisory: no property constrains the calls a successful request makes)
  \cup (IF r.calls = CallsObs(o) THEN {} ELSE {<<"resp.calls", "-", r.calls, CallsObs(o)>>})

RespFromObs(o) ==
  [class |-> o.class, loc |-> o.loc, ran |-> o.ran, seenUser |-> o.seenUser,
   seenKeys |-> ToSet(o.seenKeys),
   mails |-> MailsObs(o.mails),
   sms |-> SmsObsSet(o.sms), shown |-> {}, leaks |-> {x.where : x \in ToSet(o.leaks)},
   calls |-> CallsObs(o), faultHit |-> o.faultHit]

-----------------------------------------------------------------------------

MaxRep == 1000
MaxAdv == 5       \* advisory entries are counted; only the first few are written out

TraceInit ==
  /\ l = 1 /\ rep = <<>> /\ saved = <<>> /\ adv = 0
  /\ cfg = [modules |-> <<>>, whitelist |-> <<>>]
  /\ st = InitState([p \in Pids |-> NoUser])
  /\ resp = R0

\* a step with an injected backend failure (C18): the specification's fault
\* model (the failing call has no effect, the handler stops the way the code at
\* that call site does) says what the step should be; deviations from it are
\* reported as "faultmodel" (advisory).  The verdict comes from the fault
\* clauses and the general clauses, evaluated on the observed step with the
\* fault-free specification step r0 as the reference for "reports success"
StepLine(line) ==
  LET e    == EvOf(line)
      faulted == e.fault > 0 /\ line.resp.faultHit
      \* (the harness re-projects before a request when the TOTP period has moved on since the last step:
      \*  a stored last-used code is then nobody's current code any more)
      st0  == IF "pre" \in DOMAIN line.resp THEN FromObs(line.resp.pre, cfg, st.iss, st.scPhone, st.spent) ELSE st
      r    == Apply(st0, cfg, e)
      r0   == IF e.fault > 0 THEN Apply(st0, cfg, [e EXCEPT !.fault = 0]) ELSE r
      obsLive == Live(FromObs(line.post, cfg, line.iss, {}, {}))
      S2   == FromObs(line.post, cfg, line.iss,
                      st0.scPhone \cup {<<s.code, s.phone>> : s \in SmsObsSet(line.resp.sms)},
                      IF faulted THEN st0.spent \cup Known(Live(st0) \ obsLive) ELSE r.st.spent)
      d    == Diff(r.st, cfg, line.post) \cup (IF e.act \in EnvActs THEN {} ELSE RespDiff(r.resp, line.resp))
      pv   == IF faulted
              THEN FaultViolations(st0, S2, cfg, e, RespFromObs(line.resp), r0)
                   \cup (PropViolations(st0, S2, cfg, e, RespFromObs(line.resp)) \cap FaultTolerantClauses)
              ELSE PropViolations(st0, S2, cfg, e, RespFromObs(line.resp))
      \* advisory: the whole diff of a faulted step (fault model), and the call protocol of a fault-free one
      isAdv == d # {} /\ (e.fault > 0 \/ \A x \in d : x[1] = "resp.calls")
      add1 == IF d = {} \/ (isAdv /\ adv >= MaxAdv) THEN <<>>
              ELSE <<[kind |-> IF e.fault > 0 THEN "faultmodel" ELSE IF isAdv THEN "callprotocol" ELSE "mismatch", l |-> l, act |-> e.act,
                      fields |-> {x[1] : x \in d}, detail |-> ToString(d)]>>
      add2 == IF pv = {} THEN <<>>
              ELSE <<[kind |-> "property", l |-> l, act |-> e.act,
                      fields |-> pv, detail |-> ToString(pv)]>>
  IN  /\ st' = S2
      /\ resp' = r.resp
      /\ cfg' = cfg
      /\ rep' = IF Len(rep) >= MaxRep THEN rep ELSE rep \o add1 \o add2
      /\ adv' = IF isAdv THEN adv + 1 ELSE adv
      /\ saved' = saved

TraceNext ==
  /\ l <= Len(T)
  /\ l' = l + 1
  /\ LET line == T[l] IN
       IF line.kind = "init"
       THEN /\ cfg' = CfgOf(line)
            /\ st' = FromObs(line.post, cfg', line.iss, {}, {})
            /\ resp' = R0
            /\ rep' = rep /\ adv' = adv
            /\ saved' = <<>>
       ELSE IF line.kind = "save"       \* fork: push the current state
       THEN /\ saved' = Append(saved, st) /\ UNCHANGED <<st, cfg, resp, rep, adv>>
       ELSE IF line.kind = "restore"    \* back to the innermost saved state (kept for further variants)
       THEN /\ st' = saved[Len(saved)] /\ UNCHANGED <<cfg, resp, rep, saved, adv>>
       ELSE IF line.kind = "drop"       \* the innermost fork is finished
       THEN /\ saved' = SubSeq(saved, 1, Len(saved) - 1) /\ UNCHANGED <<st, cfg, resp, rep, adv>>
       ELSE StepLine(line)

TraceSpec == TraceInit /\ [][TraceNext]_tvars

\* acceptance: the whole file was consumed; the report is written for the checker
Finished == l = Len(T) + 1
WriteReport ==
  /\ ndJsonSerialize(IOEnv.VERIF_REPORT,
        <<[kind |-> "summary", lines |-> Len(T), consumed |-> TLCGet("stats").diameter - 1]>>)

ReportInv == Finished => ndJsonSerialize(IOEnv.VERIF_REPORT,
                 <<[kind |-> "summary", lines |-> Len(T), consumed |-> l - 1, reports |-> Len(rep), advisory |-> adv]>> \o rep)
=============================================================================
