----------------------------- MODULE Middleware -----------------------------
(***************************************************************************)
(* C08: authboss.Middleware2 / MountedMiddleware2 as a pure decision over   *)
(* (session contents, requirement bits, refusal mode, mount-path setting,   *)
(* storage outcome).  Every row of the table is one initial state; TLC      *)
(* checks the property on the whole table (AdmitIff, RefusalExact) and the  *)
(* harness executes every row against the real middleware, with several     *)
(* concrete paths/queries per row, comparing outcome and redirect target.   *)
(***************************************************************************)
EXTENDS Integers, Sequences, TLC, Json

VARIABLES row, out, js

Rows == [uid : {"absent", "unknown", "known"}, half : BOOLEAN, twofa : BOOLEAN, reqs : 0..3,
         mode : {"404", "401", "redirect"}, mount : BOOLEAN, store : {"ok", "notfound", "error"}]

NeedFull(r) == r.reqs \in {1, 3}
Need2FA(r)  == r.reqs \in {2, 3}

ReqsMet(r) == (NeedFull(r) => ~r.half) /\ (Need2FA(r) => r.twofa)

\* what storage answers when the middleware loads the session's user
LoadOutcome(r) ==
  CASE r.uid = "absent" -> "nouser"             \* no Load at all
    [] r.store = "error" -> "error"
    [] r.store = "notfound" \/ r.uid = "unknown" -> "notfound"
    [] OTHER -> "ok"

Refusal(r) == CASE r.mode = "404" -> "refuse404" [] r.mode = "401" -> "refuse401" [] OTHER -> "refuseLogin"

\* the decision, in the order the code takes it
Decide(r) ==
  IF ~ReqsMet(r) THEN [class |-> Refusal(r), ran |-> FALSE]
  ELSE CASE LoadOutcome(r) \in {"nouser", "notfound"} -> [class |-> Refusal(r), ran |-> FALSE]
         [] LoadOutcome(r) = "error" -> [class |-> "error500", ran |-> FALSE]
         [] OTHER -> [class |-> "ok", ran |-> TRUE]

Init == \E r \in Rows : row = r /\ out = Decide(r) /\ js = ToJson([row |-> r, out |-> Decide(r)])
Next == UNCHANGED <<row, out, js>>
Spec == Init /\ [][Next]_<<row, out, js>>

\* the handler runs iff the session names a loadable user and every requirement holds
AdmitIff == out.ran <=> (row.uid = "known" /\ row.store = "ok" /\ ReqsMet(row))
\* otherwise exactly the configured refusal, or a 500 on a storage error with the requirements met
RefusalExact ==
  ~out.ran => IF ReqsMet(row) /\ row.uid # "absent" /\ row.store = "error" THEN out.class = "error500"
              ELSE out.class = Refusal(row)
=============================================================================
