SPECIFICATION TraceSpec
CONSTANTS
  Pids = {"u1","u2","u3","g1","o_pa_x","o_pa_y","o_pb_x","o_pb_y"}
  Browsers = {"b1","b2"}
INVARIANT ReportInv
CHECK_DEADLOCK FALSE
