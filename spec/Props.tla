-------------------------------- MODULE Props --------------------------------
(***************************************************************************)
(* The listed properties as predicates over one step (S --e--> S2 with     *)
(* response r under configuration c).  The same predicates are             *)
(*  - checked by TLC as action properties of the specification itself      *)
(*    (MC.tla: S2 = the specification's successor), and                    *)
(*  - evaluated on every step observed from the real code (Trace.tla:      *)
(*    S = observed pre-state, S2 = observed post-state).                   *)
(* Each clause has a name "Cxx.clause"; PropViolations returns the names   *)
(* of the clauses the step violates.                                       *)
(***************************************************************************)
EXTENDS Authboss

V(name, cond) == IF cond THEN {} ELSE {name}     \* clause `name` must satisfy `cond`

Changed(S, S2, b, k) == S.sess[b][k] # S2.sess[b][k]
IsReq(e) == e.act \notin EnvActs
Flushed(r) == r.class \notin {"errorSilent", "none", "panic"}

InteractiveLogins == {"LoginPost", "OtpLoginPost", "OAuthCallback", "RecoverEnd", "TotpValidate", "SmsValidate"}
FullLogins == {"LoginPost", "OtpLoginPost", "OAuthCallback", "TotpValidate", "SmsValidate"}
StampingLogins == {"LoginPost", "OtpLoginPost", "RecoverEnd", "TotpValidate", "SmsValidate"}

LoggedInAs(S, S2, e, u) == IsReq(e) /\ Changed(S, S2, e.b, "uid") /\ S2.sess[e.b].uid = u /\ u # NONE

RmOwner(S, id) == IF \E t \in S.rm : t.id = id THEN (CHOOSE t \in S.rm : t.id = id).o ELSE NONE
RmIds(S) == {t.id : t \in S.rm}

\* the remember middleware authenticates this request from its cookie
RmAuth(S, c, e) ==
  IsReq(e) /\ Has(c, "remember") /\ S.sess[e.b].uid = NONE /\ S.cookie[e.b] >= 1
  /\ S.cookie[e.b] \in RmIds(S) /\ <<"rm", S.cookie[e.b]>> \notin S.spent

\* the session identity of this step was set by the remember middleware only
ByPrelude(S, S2, c, e) ==
  RmAuth(S, c, e) /\ S2.sess[e.b].uid = RmOwner(S, S.cookie[e.b]) /\ S2.sess[e.b].half

RcOk(S, u, e) == e.rc >= 1 /\ e.g = S.db[u].rcg /\ e.rc \in S.db[u].rcLeft /\ <<"rc", e.g * 100 + e.rc>> \notin S.spent
TotpCodeOk(S, u, e) == e.rc = 0 /\ e.code \in {1, 3} /\ e.tok >= 1 /\ e.tok = S.db[u].totp
SmsCodeOk(S, u, e, phone) == e.rc = 0 /\ e.code >= 1 /\ phone # 0 /\ e.code = S.sess[e.b].smsCode /\ <<e.code, phone>> \in S.scPhone

-----------------------------------------------------------------------------
(* C01 - a session is only issued against a valid credential of that user *)

C01_Justified(S, S2, c, e, u) ==
  LET b == e.b IN
  \/ e.act = "LoginPost" /\ e.pid = u /\ e.pw >= 1 /\ e.pw = S.db[u].pw /\ S.db[u].ex
  \/ e.act = "OtpLoginPost" /\ e.pid = u /\ e.tok >= 1 /\ e.tok \in S.db[u].otps /\ <<"otp", e.tok>> \notin S.spent
  \/ e.act = "RecoverEnd" /\ c.recoverLogin /\ e.tok >= 1 /\ S.db[u].rTok = e.tok /\ S.now <= S.db[u].rExp
       /\ <<"rt", e.tok>> \notin S.spent
  \/ e.act = "RegisterPost" /\ e.pid = u /\ ~S.db[u].ex /\ S2.db[u].ex
  \/ e.act = "OAuthCallback" /\ e.tok >= 1 /\ S.sess[b].oState = e.tok /\ e.outcome \in {"x", "y"}
       /\ u = OPid(e.prov, e.outcome)
  \/ e.act = "TotpValidate" /\ ValidateUser(Ctx0(S, c, e), S.sess[b].totpPend) = u
       /\ (S.sess[b].uid = NONE \/ S.sess[b].uid = u)
  \/ e.act = "SmsValidate" /\ ValidateUser(Ctx0(S, c, e), S.sess[b].smsPend) = u
       /\ (S.sess[b].uid = NONE \/ S.sess[b].uid = u)
  \* an injected "not found" on the lookup of the session's user sends the handler to the pending
  \* account, whose own second factor must then have been presented
  \/ e.act = "TotpValidate" /\ e.fault >= 1 /\ e.faultE = "notfound" /\ S.sess[b].totpPend = u
       /\ (RcOk(S, u, e) \/ TotpCodeOk(S, u, e))
  \/ e.act = "SmsValidate" /\ e.fault >= 1 /\ e.faultE = "notfound" /\ S.sess[b].smsPend = u
       /\ (RcOk(S, u, e) \/ SmsCodeOk(S, u, e, S.db[u].sms))
  \/ RmAuth(S, c, e) /\ RmOwner(S, S.cookie[b]) = u

C01_V(S, S2, c, e) ==
  LET b == e.b IN
  (IF IsReq(e)
   THEN V("C01.sessionOnlyByCredential",
          Changed(S, S2, b, "uid") /\ S2.sess[b].uid # NONE => C01_Justified(S, S2, c, e, S2.sess[b].uid))
        \cup V("C01.otherBrowserUntouched", \A x \in Browsers \ {b} : S.sess[x] = S2.sess[x] /\ S.cookie[x] = S2.cookie[x])
   ELSE {})

-----------------------------------------------------------------------------
(* C02 - with a second factor enabled, the password alone never yields a session *)

Has2FA(c, ur) == (Has(c, "totp") /\ ur.totp # 0) \/ (Has(c, "sms") /\ ur.sms # 0)

C02_V(S, S2, c, e) ==
  (IF ~IsReq(e) \/ ~Changed(S, S2, e.b, "uid") \/ S2.sess[e.b].uid = NONE \/ ByPrelude(S, S2, c, e) THEN {}
   ELSE LET u == S2.sess[e.b].uid IN
       V("C02.primaryOnlyParks", e.act \in {"LoginPost", "OtpLoginPost", "RecoverEnd"} => ~Has2FA(c, S.db[u]))
       \cup V("C02.secondStepOwnFactor",
              (e.act = "TotpValidate" => TotpCodeOk(S, u, e) \/ RcOk(S, u, e))
              /\ (e.act = "SmsValidate" => SmsCodeOk(S, u, e, S.db[u].sms) \/ RcOk(S, u, e))))
  \* ... nor anything that stands for a session: the primary step of a 2FA account issues no remember token
  \* (a token already presented by this request's own cookie may be rotated by the middleware)
  \cup (IF IsReq(e) /\ e.act \in {"LoginPost", "OtpLoginPost"} /\ e.pid \in Pids /\ S.db[e.pid].ex /\ Has2FA(c, S.db[e.pid])
           /\ ~(RmAuth(S, c, e) /\ RmOwner(S, S.cookie[e.b]) = e.pid)
        THEN V("C02.noRememberOnPrimaryAlone", {t \in S2.rm : t.o = e.pid} \subseteq S.rm)
        ELSE {})

-----------------------------------------------------------------------------
(* C03 - locked / unconfirmed accounts cannot complete a login or use protected routes *)

Blocked(c, ur, now) == (Has(c, "lock") /\ Locked(ur, now)) \/ (Has(c, "confirm") /\ ~ur.conf)

C03_V(S, S2, c, e, r) ==
  (IF IsReq(e) /\ e.act \in InteractiveLogins /\ Changed(S, S2, e.b, "uid") /\ S2.sess[e.b].uid # NONE
        /\ ~ByPrelude(S, S2, c, e)
   THEN LET u == S2.sess[e.b].uid IN
        V("C03.noLoginWhileBlocked", S.db[u].ex => ~Blocked(c, S.db[u], S.now))
   ELSE {})
  \cup (IF e.act = "Probe" /\ r.ran /\ r.seenUser \in Pids
        THEN V("C03.middlewareBlocks", ~Blocked(c, S2.db[r.seenUser], S2.now))
        ELSE {})

-----------------------------------------------------------------------------
(* C04 - counting and lockout follow the thresholds exactly (the reference    *)
(* automaton is LockUpdate / LockSuccess of Authboss.tla; its conformance is  *)
(* the footprint db.att / db.winLeft / db.lockLeft)                           *)

C04_V(S, S2, c, e) ==
  IF ~Has(c, "lock") THEN {}
  ELSE
  (IF e.act = "LoginPost" /\ e.pid \in Pids /\ S.db[e.pid].ex /\ e.pw >= 1 /\ e.pw = S.db[e.pid].pw
   THEN V("C04.correctNeverCounts", S2.db[e.pid].att <= S.db[e.pid].att
                                    /\ (Locked(S2.db[e.pid], S2.now) => Locked(S.db[e.pid], S.now)))
   ELSE {})
  \cup (IF e.act = "AdminUnlock"
        THEN V("C04.unlockClears", S2.db[e.pid].att = 0 /\ ~Locked(S2.db[e.pid], S2.now))
        ELSE {})
  \cup V("C04.lockedAtThreshold",
         \A u \in Pids : S2.db[u].att > S.db[u].att /\ S2.db[u].att >= c.lockAfter
                          => S2.db[u].lockedUntil = S2.now + Thr(c.lockDuration))
  \cup V("C04.countsByOne", \A u \in Pids : S2.db[u].att > S.db[u].att => S2.db[u].att = S.db[u].att + 1 \/ S2.db[u].att = 1)

-----------------------------------------------------------------------------
(* C05 - confirm and recovery links work once, only for their account, unmodified *)

\* the handler itself left the session identity alone (the global remember /
\* expire middlewares in front of it may have authenticated or expired it)
UidSameModuloMW(S, S2, c, e) ==
  \/ ~Changed(S, S2, e.b, "uid")
  \/ RmAuth(S, c, e) /\ S2.sess[e.b].uid = RmOwner(S, S.cookie[e.b])
  \/ Has(c, "expire") /\ S2.sess[e.b].uid = NONE /\ Expired(S.sess[e.b], c, S.now)

ConfirmOwner(S, t) == IF t >= 1 /\ \E u \in Pids : S.db[u].ex /\ S.db[u].cTok = t
                      THEN CHOOSE u \in Pids : S.db[u].ex /\ S.db[u].cTok = t ELSE NONE
RecoverOwner(S, t) == IF t >= 1 /\ \E u \in Pids : S.db[u].ex /\ S.db[u].rTok = t
                      THEN CHOOSE u \in Pids : S.db[u].ex /\ S.db[u].rTok = t ELSE NONE

C05_V(S, S2, c, e) ==
  IF e.act = "ConfirmGet" /\ Has(c, "confirm") THEN
       LET o == ConfirmOwner(S, e.tok)
           ok == o # NONE /\ <<"ct", e.tok>> \notin S.spent
       IN  IF ok
           THEN V("C05.acceptConfirms", S2.db[o].conf /\ S2.db[o].cTok = 0)
                \cup V("C05.onlyOwner", \A v \in Pids \ {o} : S2.db[v] = S.db[v])
           ELSE V("C05.rejectIsNoOp", S2.db = S.db /\ UidSameModuloMW(S, S2, c, e))
  ELSE IF e.act = "RecoverEnd" /\ Has(c, "recover") THEN
       LET o == RecoverOwner(S, e.tok)
           ok == o # NONE /\ e.valid /\ S.now <= S.db[o].rExp /\ <<"rt", e.tok>> \notin S.spent
       IN  IF ok
           THEN V("C05.acceptSpends", S2.db[o].rTok = 0 /\ S2.db[o].pw = e.pw)
                \cup V("C05.onlyOwner", \A v \in Pids \ {o} : S2.db[v] = S.db[v])
           ELSE V("C05.rejectIsNoOp", S2.db = S.db /\ UidSameModuloMW(S, S2, c, e)
                                      /\ (S2.rm = S.rm \/ RmAuth(S, c, e)))
  ELSE IF e.act = "RecoverStart" /\ Has(c, "recover") /\ e.valid /\ e.pid \in Pids /\ S.db[e.pid].ex THEN
       V("C05.supersession", S2.db[e.pid].rTok >= 1 /\ S2.db[e.pid].rTok # S.db[e.pid].rTok
                             /\ S2.db[e.pid].rExp = S2.now + Thr(c.recoverTTL))
       \cup V("C05.onlyOwner", \A v \in Pids \ {e.pid} : S2.db[v] = S.db[v])
  ELSE {}

-----------------------------------------------------------------------------
(* C06 - a password change revokes the old password, recovery link, remember tokens *)

C06_V(S, S2, c, e) ==
  LET u == IF e.act = "UpdatePassword" THEN e.pid
           ELSE IF e.act = "RecoverEnd" /\ Has(c, "recover") /\ e.valid
                   /\ RecoverOwner(S, e.tok) # NONE /\ S.now <= S.db[RecoverOwner(S, e.tok)].rExp
                   /\ <<"rt", e.tok>> \notin S.spent
                THEN RecoverOwner(S, e.tok) ELSE NONE
  IN IF u = NONE THEN {}
     ELSE V("C06.newPasswordSet", S2.db[u].pw = e.pw)
          \cup V("C06.rememberRevoked", \A t \in S.rm : t.o = u => t \notin S2.rm)
          \cup V("C06.othersUntouched", \A v \in Pids \ {u} : S2.db[v].pw = S.db[v].pw /\ S2.db[v].rTok = S.db[v].rTok
                                           /\ ({t \in S2.rm : t.o = v /\ t \in S.rm} = {t \in S.rm : t.o = v}
                                               \/ (IsReq(e) /\ RmAuth(S, c, e) /\ RmOwner(S, S.cookie[e.b]) = v)))
          \cup (IF e.act = "RecoverEnd" THEN V("C06.tokenSpent", S2.db[u].rTok = 0) ELSE {})

-----------------------------------------------------------------------------
(* C07 - remember-me cookies: single use, bound to one user, half-auth only *)

C07_V(S, S2, c, e, r) ==
  IF ~IsReq(e) \/ ~Has(c, "remember") THEN {}
  ELSE LET b == e.b
           auth == RmAuth(S, c, e)
           old == S.cookie[b]
       IN
       (IF auth THEN V("C07.singleUse", old \notin RmIds(S2)) ELSE {})
       \cup (IF auth /\ e.act = "Probe" /\ Flushed(r)
             THEN V("C07.boundToUser", S2.sess[b].uid = RmOwner(S, old))
                  \cup V("C07.halfOnly", S2.sess[b].half)
                  \cup V("C07.rotated", S2.cookie[b] >= 1 /\ S2.cookie[b] # old /\ RmOwner(S2, S2.cookie[b]) = RmOwner(S, old))
             ELSE {})
       \cup (IF ~auth /\ e.act = "Probe" /\ S.sess[b].uid = NONE /\ S.cookie[b] # 0 /\ Flushed(r)
             THEN V("C07.badCookieDeleted", S2.cookie[b] = 0 /\ S2.sess[b].uid = NONE)
             ELSE {})
       \cup V("C07.issuedOnlyOnRequest",
              S2.cookie[b] # S.cookie[b] /\ S2.cookie[b] # 0
                 => auth \/ (e.act \in {"LoginPost", "OtpLoginPost"} /\ e.rm)
                         \/ (e.act = "OAuthCallback" /\ S.sess[b].oHas /\ S.sess[b].oRm))
       \cup (IF S.sess[b].uid # NONE /\ e.act = "Probe"
             THEN V("C07.idleWhenLoggedIn", S2.cookie[b] = S.cookie[b] /\ S2.rm = S.rm) ELSE {})
       \cup (IF e.act \in FullLogins /\ Changed(S, S2, b, "uid") /\ S2.sess[b].uid # NONE /\ ~auth
             THEN V("C07.fullLoginClearsHalf", ~S2.sess[b].half) ELSE {})

-----------------------------------------------------------------------------
(* C09 - an idle session expires and is hidden downstream *)

C09_V(S, S2, c, e, r) ==
  IF ~IsReq(e) \/ ~Has(c, "expire") THEN {}
  ELSE LET b == e.b
           live == S.sess[b].uid # NONE
           exp == live /\ Expired(S.sess[b], c, S.now)
       IN
       (IF exp /\ e.act = "Probe"
        THEN V("C09.servedUnauthenticated", (e.k # "bare" => ~r.ran) /\ r.seenUser = NONE)
        ELSE {})
       \cup (IF exp /\ Flushed(r) /\ e.act \notin InteractiveLogins \cup {"RegisterPost", "OAuthStart"}
             THEN V("C09.expiredWiped", \A k \in SessKeys \ WL(c) : S2.sess[b][k] = EmptySess[k])
                  \cup V("C09.whitelistKept", \A k \in SessKeys \cap WL(c) : S2.sess[b][k] = S.sess[b][k])
             ELSE {})
       \cup (IF live /\ ~exp /\ Flushed(r) /\ S2.sess[b].uid # NONE
             THEN V("C09.liveRefreshed", S2.sess[b].lastAct = S2.now) ELSE {})
       \cup (IF e.act \in StampingLogins /\ Changed(S, S2, b, "uid") /\ S2.sess[b].uid # NONE
             THEN V("C09.loginStamps", S2.sess[b].lastAct = S2.now) ELSE {})
       \* (the /bare route has no authentication requirement of its own: it may run for anybody)
       \cup (IF e.act = "Probe" /\ r.ran /\ e.k # "bare"
             THEN V("C09.ranOnlyIfLive", live /\ ~exp) ELSE {})

-----------------------------------------------------------------------------
(* C10 - logout leaves nothing behind *)

C10_V(S, S2, c, e) ==
  IF e.act # "Logout" THEN {}
  ELSE IF Has(c, "logout") /\ e.method = c.logoutMethod
  THEN V("C10.sessionWiped", \A k \in SessKeys \ WL(c) : S2.sess[e.b][k] = EmptySess[k])
       \cup V("C10.whitelistKept", \A k \in SessKeys \cap WL(c) : S2.sess[e.b][k] = S.sess[e.b][k])
       \cup V("C10.cookieRemoved", S2.cookie[e.b] = 0)
  ELSE V("C10.onlyConfiguredMethod",
         \A k \in SessKeys \ {"uid", "half", "lastAct"} : S2.sess[e.b][k] = S.sess[e.b][k] \/ Has(c, "expire"))

-----------------------------------------------------------------------------
(* C12 - one-time secrets are consumed by the login they enable, never work twice *)

C12_V(S, S2, c, e) ==
  V("C12.atMostFive", \A u \in Pids : Cardinality(S2.db[u].otps) <= 5)
  \cup (IF e.act = "OtpLoginPost" /\ LoggedInAs(S, S2, e, e.pid) /\ ~ByPrelude(S, S2, c, e)
        THEN V("C12.otpOnce", e.tok \notin S2.db[e.pid].otps /\ <<"otp", e.tok>> \notin S.spent
                              /\ e.tok \in S.db[e.pid].otps)
        ELSE {})
  \cup (IF e.act \in {"TotpValidate", "SmsValidate"} /\ e.rc # 0 /\ IsReq(e)
           /\ Changed(S, S2, e.b, "uid") /\ S2.sess[e.b].uid # NONE /\ ~ByPrelude(S, S2, c, e)
        THEN LET u == S2.sess[e.b].uid IN
             V("C12.rcOnce", RcOk(S, u, e) /\ e.rc \notin S2.db[u].rcLeft)
        ELSE {})
  \cup (IF e.act = "SmsValidate" /\ IsReq(e) /\ Changed(S, S2, e.b, "uid") /\ S2.sess[e.b].uid # NONE /\ ~ByPrelude(S, S2, c, e)
        THEN V("C12.smsOnce", S2.sess[e.b].smsCode = 0) ELSE {})
  \cup (IF e.act = "TotpValidate" /\ c.totpOneTime /\ e.rc = 0 /\ IsReq(e)
           /\ Changed(S, S2, e.b, "uid") /\ S2.sess[e.b].uid # NONE /\ ~ByPrelude(S, S2, c, e)
        THEN V("C12.totpNoImmediateReplay", TotpEnc(e) # S.db[S2.sess[e.b].uid].totpLast) ELSE {})

-----------------------------------------------------------------------------
(* C13 - only the fully authenticated owner, proving the factor, changes 2FA settings *)

C13_V(S, S2, c, e) ==
  LET ch == {u \in Pids : S.db[u].ex /\ (S2.db[u].totp # S.db[u].totp \/ S2.db[u].sms # S.db[u].sms
                                          \/ S2.db[u].rcg # S.db[u].rcg)}
  IN
  (IF ch = {} THEN {}
   ELSE IF ~IsReq(e) THEN {"C13.changeAuthorised"}
   ELSE LET b == e.b IN
        V("C13.changeAuthorised", \A u \in ch : S.sess[b].uid = u /\ ~S.sess[b].half)
        \cup V("C13.enableNeedsProof",
               \A u \in ch :
                 (S2.db[u].totp # S.db[u].totp /\ S2.db[u].totp # 0
                    => e.act = "TotpConfirm" /\ S.sess[b].totpSetup = S2.db[u].totp /\ e.tok = S2.db[u].totp /\ e.code \in {1, 3})
                 /\ (S2.db[u].sms # S.db[u].sms /\ S2.db[u].sms # 0
                    => e.act = "SmsConfirm" /\ S.sess[b].smsNum = S2.db[u].sms /\ SmsCodeOk(S, u, e, S2.db[u].sms)))
        \cup V("C13.disableNeedsProof",
               \A u \in ch :
                 (S2.db[u].totp = 0 /\ S.db[u].totp # 0 => e.act = "TotpRemove" /\ (TotpCodeOk(S, u, e) \/ RcOk(S, u, e)))
                 /\ (S2.db[u].sms = 0 /\ S.db[u].sms # 0 => e.act = "SmsRemove" /\ (SmsCodeOk(S, u, e, S.db[u].sms) \/ RcOk(S, u, e))))
        \cup V("C13.regenOnlyByRoute",
               \A u \in ch : S2.db[u].rcg # S.db[u].rcg => e.act \in {"RecoveryRegen", "TotpConfirm", "SmsConfirm"})
        \cup V("C13.emailAuthorised",
               c.emailAuth => \A u \in ch :
                  (S2.db[u].totp # S.db[u].totp /\ S2.db[u].totp # 0) \/ (S2.db[u].sms # S.db[u].sms /\ S2.db[u].sms # 0)
                    => S.sess[b].tfaAuthed /\ ~S2.sess[b].tfaAuthed))
  \cup (IF IsReq(e) /\ ~S.sess[e.b].tfaAuthed /\ S2.sess[e.b].tfaAuthed
        THEN V("C13.emailAuthSound", e.act = "EmailVerifyEnd" /\ e.tok >= 1 /\ e.tok = S.sess[e.b].tfaTok
                                     /\ S.sess[e.b].uid # NONE /\ ~S.sess[e.b].half)
        ELSE {})

-----------------------------------------------------------------------------
(* C14 - OAuth2 callbacks need the session's own unused state, bind the named identity *)

C14_V(S, S2, c, e, r) ==
  IF e.act # "OAuthCallback" \/ ~Has(c, "oauth2") THEN {}
  ELSE LET b == e.b
           matched == S.sess[b].oState # 0 /\ e.tok >= 1 /\ e.tok = S.sess[b].oState /\ <<"os", e.tok>> \notin S.spent
           dbSame == \A u \in Pids : S2.db[u].ex = S.db[u].ex
       IN
       V("C14.needsOwnState", ~UidSameModuloMW(S, S2, c, e) \/ ~dbSame => matched /\ e.outcome \in {"x", "y"})
       \cup (IF matched /\ Flushed(r)
             THEN V("C14.stateSpent", S2.sess[b].oState = 0 /\ ~S2.sess[b].oHas) ELSE {})
       \cup (IF ~UidSameModuloMW(S, S2, c, e) /\ S2.sess[b].uid # NONE
             THEN V("C14.bindsIdentity", S2.sess[b].uid = OPid(e.prov, e.outcome)) ELSE {})
       \cup (IF e.outcome \notin {"x", "y"}
             THEN V("C14.errorLogsNobodyIn", UidSameModuloMW(S, S2, c, e) /\ dbSame) ELSE {})

-----------------------------------------------------------------------------
(* C19 - registration creates exactly one account, never overwrites *)

C19_V(S, S2, c, e) ==
  IF e.act # "RegisterPost" \/ ~Has(c, "register") THEN {}
  ELSE LET u == e.pid
           b == e.b
           uidSame == UidSameModuloMW(S, S2, c, e)
       IN
       IF ~e.valid THEN V("C19.invalidCreatesNothing", S2.db = S.db /\ uidSame)
       ELSE IF S.db[u].ex THEN V("C19.neverOverwrites", S2.db = S.db /\ uidSame)
       ELSE V("C19.createsExactlyOne", S2.db[u].ex /\ S2.db[u].pw = e.pw /\ S2.db[u].arb = {}
                                       /\ \A v \in Pids \ {u} : S2.db[v] = S.db[v])
            \cup V("C19.noAutoLoginUnderConfirm", Has(c, "confirm") => uidSame)
            \cup V("C19.autoLoginWithoutConfirm", ~Has(c, "confirm") => S2.sess[b].uid = u)
            \cup V("C19.confirmationStarted", Has(c, "confirm") => ~S2.db[u].conf /\ S2.db[u].cTok >= 1)

-----------------------------------------------------------------------------
(* C16 - responses leak neither password correctness when locked nor account     *)
(* existence: two-run non-interference as a STATE predicate, the observable       *)
(* outcome of a request being a pure function (Apply) of state and request.       *)
(* (The byte-level comparison on the code is the forked paired replay of          *)
(* `abdrive ni`; this is the design-level statement over every reachable state.)  *)

ClientView(S, c, e) ==
  LET r == Apply(S, c, e) IN
  [class |-> r.resp.class, loc |-> r.resp.loc, sess |-> r.st.sess[e.b], cookie |-> r.st.cookie[e.b]]

WouldLock(c, ur, now) ==
  Has(c, "lock") /\ (IF now - ur.last <= Thr(c.lockWindow) THEN ur.att + 1 ELSE 1) >= c.lockAfter

NIViolations(S, c) ==
  LET known  == {u \in Pids : S.db[u].ex /\ S.db[u].pw >= 1}
      ghosts == {g \in Pids : ~S.db[g].ex}
      login(b, p, w) == [E0 EXCEPT !.act = "LoginPost", !.b = b, !.pid = p, !.pw = w]
      otpl(b, p)     == [E0 EXCEPT !.act = "OtpLoginPost", !.b = b, !.pid = p, !.tok = -1]
      rec(b, p)      == [E0 EXCEPT !.act = "RecoverStart", !.b = b, !.pid = p]
  IN
  V("C16.lockedHidesPasswordCorrectness",
    \A u \in known, b \in Browsers :
       Has(c, "auth") /\ Has(c, "lock") /\ Locked(S.db[u], S.now) /\ (Has(c, "confirm") => S.db[u].conf)
         => ClientView(S, c, login(b, u, S.db[u].pw)) = ClientView(S, c, login(b, u, -1)))
  \cup V("C16.recoverHidesExistence",
    \A u \in known, g \in ghosts, b \in Browsers :
       Has(c, "recover") => ClientView(S, c, rec(b, u)) = ClientView(S, c, rec(b, g)))
  \cup V("C16.failedLoginHidesExistence",
    \A u \in known, g \in ghosts, b \in Browsers :
       ~(Has(c, "lock") /\ Locked(S.db[u], S.now)) /\ ~WouldLock(c, S.db[u], S.now)
         => /\ (Has(c, "auth") => ClientView(S, c, login(b, u, -1)) = ClientView(S, c, login(b, g, -1)))
            /\ (Has(c, "otp") => ClientView(S, c, otpl(b, u)) = ClientView(S, c, otpl(b, g))))

-----------------------------------------------------------------------------
(* C20 (cross-talk clause) at the design level: requests of clients working on   *)
(* disjoint accounts and browsers are independent - whatever one client does in  *)
(* between, the other client's next request has the same response and leaves the *)
(* same client-visible state (identifiers of freshly issued secrets are drawn    *)
(* from shared counters, so they are compared by presence).  Any interleaving of *)
(* request-atomic steps is therefore equivalent, for each client, to running     *)
(* alone.  (The code-level half is `abdrive conc` under the race detector.)      *)

SessProj(s) == [uid |-> s.uid, half |-> s.half, twofa |-> s.twofa, totpPend |-> s.totpPend, smsPend |-> s.smsPend,
                smsCode |-> s.smsCode # 0, smsLast |-> s.smsLast, totpSetup |-> s.totpSetup # 0, smsNum |-> s.smsNum,
                oState |-> s.oState # 0, oHas |-> s.oHas, tfaTok |-> s.tfaTok # 0, tfaAuthed |-> s.tfaAuthed,
                lastAct |-> s.lastAct, app1 |-> s.app1, app2 |-> s.app2]
UserProj(u) == [ex |-> u.ex, pw |-> u.pw, conf |-> u.conf, cTok |-> u.cTok # 0, rTok |-> u.rTok # 0, rExp |-> u.rExp,
                att |-> u.att, last |-> u.last, lockedUntil |-> u.lockedUntil, otps |-> Cardinality(u.otps),
                rc |-> Cardinality(u.rcLeft), totp |-> u.totp # 0, sms |-> u.sms]
ClientProj(S, b, u) == [sess |-> SessProj(S.sess[b]), cookie |-> S.cookie[b] # 0, user |-> UserProj(S.db[u]),
                        rm |-> Cardinality({t \in S.rm : t.o = u})]
RespProj(r) == [class |-> r.class, loc |-> r.loc, ran |-> r.ran, seenUser |-> r.seenUser,
                mails |-> {<<m.to, m.kind>> : m \in r.mails}, sms |-> {s.phone : s \in r.sms}]

ClientEvents(S, c, b, u) ==
  { [E0 EXCEPT !.act = "LoginPost", !.b = b, !.pid = u, !.pw = w, !.rm = r] : w \in {S.db[u].pw, -1}, r \in BOOLEAN }
  \cup { [E0 EXCEPT !.act = a, !.b = b] : a \in {"Probe", "OtpAdd", "OtpClear"} }
  \cup { [E0 EXCEPT !.act = "Logout", !.b = b, !.method = c.logoutMethod] }
  \cup { [E0 EXCEPT !.act = "RecoverStart", !.b = b, !.pid = u] }
  \cup { [E0 EXCEPT !.act = "RecoverEnd", !.b = b, !.tok = S.db[u].rTok, !.pw = 3] }
  \cup { [E0 EXCEPT !.act = "OtpLoginPost", !.b = b, !.pid = u, !.tok = t] : t \in S.db[u].otps \cup {-1} }
  \cup { [E0 EXCEPT !.act = "ConfirmGet", !.b = b, !.tok = S.db[u].cTok] }

IndependenceViolations(S, c) ==
  V("C20.independentClients",
    \A e1 \in ClientEvents(S, c, "b1", "u1") :
       LET S1 == Apply(S, c, e1).st IN
       \A e2 \in ClientEvents(S, c, "b2", "u2") :
          LET alone == Apply(S, c, e2)
              after == Apply(S1, c, e2)
          IN  RespProj(alone.resp) = RespProj(after.resp)
              /\ ClientProj(alone.st, "b2", "u2") = ClientProj(after.st, "b2", "u2")
              /\ ClientProj(after.st, "b1", "u1") = ClientProj(S1, "b1", "u1"))

-----------------------------------------------------------------------------
(* C17 - secrets are never stored or logged in recoverable form; mailed tokens   *)
(* leave only in the e-mail addressed to the account.  r.leaks is filled by the  *)
(* harness scanner (every plaintext secret it typed or was shown, in several     *)
(* encodings, against every stored field and the step's log lines); the          *)
(* specification itself stores nothing but identifiers, so it is always empty    *)
(* at the design level.                                                          *)

MailOwner(S2, e, m) ==
  CASE m.kind = "confirm" -> {u \in Pids : S2.db[u].ex /\ S2.db[u].cTok = m.tok}
    [] m.kind = "recover" -> {u \in Pids : S2.db[u].ex /\ S2.db[u].rTok = m.tok}
    [] m.kind = "tfaverify" -> IF IsReq(e) THEN {S2.sess[e.b].uid} ELSE {}
    [] OTHER -> {}

C17_V(S, S2, c, e, r) ==
  V("C17.noPlaintextStoredOrLogged", r.leaks = {})
  \cup V("C17.mailOnlyToOwner",
         \A m \in r.mails : m.tok >= 1 /\ \E u \in MailOwner(S2, e, m) :
               m.to \subseteq ({u} \cup (IF m.kind = "recover" THEN Secondary(u) ELSE {})))

-----------------------------------------------------------------------------
(* C18 - backend failures never panic, fake success or weaken security state.   *)
(* Evaluated on observed steps in which an injected failure was hit; r0 is the   *)
(* specification's fault-free step from the same pre-state (the reference for    *)
(* "reports success").                                                           *)

\* (mailed tokens by presence: a mail that failed to go out leaves a stored token the harness never learns)
SecView(S) == [db |-> [u \in Pids |-> [ex |-> S.db[u].ex, pw |-> S.db[u].pw, conf |-> S.db[u].conf, cTok |-> S.db[u].cTok # 0,
                                         rTok |-> S.db[u].rTok # 0, otps |-> S.db[u].otps, rcg |-> S.db[u].rcg,
                                         rcLeft |-> S.db[u].rcLeft, totp |-> S.db[u].totp, sms |-> S.db[u].sms]],
               rmOwners |-> {t.o : t \in S.rm}]

SuccessLike(r) == (r.class = "redirect" /\ r.loc \in {"loginOK", "redir", "confirmOK", "recoverOK", "registerOK", "oauth2OK",
                                                        "logoutOK", "totpConfirm", "smsConfirm", "totpSetup", "smsSetup"})
                  \/ (r.class = "page" /\ r.loc \in {"totpConfirmOK", "smsConfirmOK", "totpRemoveOK", "smsRemoveOK",
                                                      "recovery2fa", "otpAdd"})
                  \/ r.class = "ok"

\* the one-time credential a step logs in with, as <<kind, id>> (or <<>>)
OneTimeCred(S, c, e) ==
  IF e.act = "OtpLoginPost" /\ e.tok >= 1 THEN <<"otp", e.tok>>
  ELSE IF e.act \in {"TotpValidate", "SmsValidate"} /\ e.rc >= 1 THEN <<"rc", e.g * 100 + e.rc>>
  ELSE IF RmAuth(S, c, e) THEN <<"rm", S.cookie[e.b]>>
  ELSE <<>>

FaultViolations(S, S2, c, e, r, r0) ==
  \* (lock / confirm middleware used bare document that they panic when the user cannot be loaded)
  V("C18.noPanic", r.class = "panic" => e.act = "Probe" /\ e.k = "bare")
  \cup V("C18.noFakeSuccess",
         \* (an injected "not found" legitimately sends a handler down its not-found branch)
         \* (a failure inside the remember middleware is logged and the request goes on without the
         \*  cookie login: what the handler behind it then reports is about its own, fault-free work;
         \*  the middleware's part is held to "only invalidates")
         LET inRememberMW == Has(c, "remember") /\ S.sess[e.b].uid = NONE /\ e.fault <= Len(r.calls) /\ e.fault <= 2
                             /\ r.calls[1].kind = "UseRememberToken"
                             /\ r.calls[e.fault].kind \in {"UseRememberToken", "AddRememberToken"}
         IN
         e.faultE = "io" /\ SuccessLike(r) /\ r.class = r0.resp.class /\ r.loc = r0.resp.loc
            => IF inRememberMW THEN SecView(S2).db = SecView(r0.st).db ELSE SecView(S2) = SecView(r0.st))
  \cup V("C18.noSessionOnUnsavedConsumption",
         \* (a remember token only answers for the half-authenticated session the middleware issues:
         \*  a full login by password in the same request stands on the password)
         LET cred == OneTimeCred(S, c, e) IN
         IsReq(e) /\ Changed(S, S2, e.b, "uid") /\ S2.sess[e.b].uid # NONE /\ cred # <<>>
           /\ (cred[1] = "rm" => S2.sess[e.b].half)
            => cred \notin Live(S2))
  \cup V("C18.onlyInvalidates", \A x \in S.spent : x \notin Live(S2))
  \* a credential the backend already consumed (the consuming call succeeded before the failing one)
  \* stays consumed: the failed request must not put it back
  \cup V("C18.consumedStaysConsumed",
         RmAuth(S, c, e) /\ (\E i \in 1..(e.fault - 1) : i <= Len(r.calls) /\ r.calls[i].kind = "UseRememberToken")
            => S.cookie[e.b] \notin RmIds(S2))
  \cup V("C18.nothingUnissuedBecomesLive",
         \* (id -1: a stored secret nobody was ever shown, e.g. saved before the page failed to render)
         \A x \in Live(S2) \ Live(S) : x[1] \in Kinds /\ (x[1] = "rc" \/ x[2] < 0 \/ x[2] > S.iss[x[1]]))

\* general clauses that must hold whether or not a backend call fails
FaultTolerantClauses == {"C01.sessionOnlyByCredential", "C01.otherBrowserUntouched", "C02.primaryOnlyParks",
                         "C03.noLoginWhileBlocked", "C03.middlewareBlocks", "C13.changeAuthorised", "C19.noAutoLoginUnderConfirm",
                         "C19.neverOverwrites", "C19.invalidCreatesNothing", "C17.noPlaintextStoredOrLogged"}

-----------------------------------------------------------------------------

PropViolations(S, S2, c, e, r) ==
  C01_V(S, S2, c, e) \cup C02_V(S, S2, c, e) \cup C03_V(S, S2, c, e, r) \cup C04_V(S, S2, c, e)
  \cup C05_V(S, S2, c, e) \cup C06_V(S, S2, c, e) \cup C07_V(S, S2, c, e, r) \cup C09_V(S, S2, c, e, r)
  \cup C10_V(S, S2, c, e) \cup C12_V(S, S2, c, e) \cup C13_V(S, S2, c, e) \cup C14_V(S, S2, c, e, r)
  \cup C19_V(S, S2, c, e) \cup C17_V(S, S2, c, e, r)

=============================================================================
