-------------------------------- MODULE Props --------------------------------
(***************************************************************************)
(* The listed properties as predicates over one step (S --e--> S2 with     *)
(* response r under configuration c).  The same predicates are             *)
(*  - checked by TLC as action properties of the specification itself      *)
(*    (MC.tla: S2 = the specification's successor), and                    *)
(*  - evaluated on every step observed from the real code (Trace.tla:      *)
(*    S = observed pre-state, S2 = observed post-state).                   *)
(* Each clause has a name "Cxx.clause"; PropViolations returns the names   *)
(* of the clauses the step violates.                                       *)
(***************************************************************************)
EXTENDS Authboss

Changed(S, S2, b, k) == S.sess[b][k] # S2.sess[b][k]

InteractiveLogins == {"LoginPost", "OtpLoginPost", "OAuthCallback", "RecoverEnd", "TotpValidate", "SmsValidate"}

\* the browser a request acts for; environment events act for no browser
ReqBrowser(e) == IF e.act \in EnvActs THEN NONE ELSE e.b

-----------------------------------------------------------------------------
(* C01 - a session is only issued against a valid credential of that user *)

RmOwner(S, id) == IF \E t \in S.rm : t.id = id THEN (CHOOSE t \in S.rm : t.id = id).o ELSE NONE

C01_Justified(S, S2, c, e, b) ==
  LET u == S2.sess[b].uid IN
  \/ e.act = "LoginPost" /\ e.pid = u /\ e.pw >= 1 /\ e.pw = S.db[u].pw /\ S.db[u].ex
  \/ e.act = "OtpLoginPost" /\ e.pid = u /\ e.tok >= 1 /\ e.tok \in S.db[u].otps
  \/ e.act = "RecoverEnd" /\ c.recoverLogin /\ e.tok >= 1 /\ S.db[u].rTok = e.tok /\ S.now <= S.db[u].rExp
  \/ e.act = "RegisterPost" /\ e.pid = u /\ ~S.db[u].ex /\ S2.db[u].ex
  \/ e.act = "OAuthCallback" /\ e.tok >= 1 /\ S.sess[b].oState = e.tok
  \/ e.act = "TotpValidate" /\ S.sess[b].uid = NONE /\ S.sess[b].totpPend = u
  \/ e.act = "SmsValidate" /\ S.sess[b].uid = NONE /\ S.sess[b].smsPend = u
  \/ Has(c, "remember") /\ S.sess[b].uid = NONE /\ S.cookie[b] >= 1 /\ RmOwner(S, S.cookie[b]) = u

C01 == "C01.sessionOnlyByCredential"
C01x == "C01.otherBrowserUntouched"

C01_V(S, S2, c, e) ==
     {C01 : b \in {x \in Browsers : x = ReqBrowser(e) /\ Changed(S, S2, x, "uid")
                                     /\ S2.sess[x].uid # NONE /\ ~C01_Justified(S, S2, c, e, x)}}
  \cup {C01x : b \in {x \in Browsers : x # ReqBrowser(e) /\ e.act \notin EnvActs
                                     /\ S.sess[x] # S2.sess[x]}}

-----------------------------------------------------------------------------
(* C10 - logout leaves nothing behind *)

C10_V(S, S2, c, e) ==
  IF e.act = "Logout" /\ Has(c, "logout") /\ e.method = c.logoutMethod
  THEN {"C10.sessionWiped" : k \in {x \in SessKeys : x \notin WL(c) /\ S2.sess[e.b][x] # EmptySess[x]}}
       \cup {"C10.whitelistKept" : k \in {x \in SessKeys \cap WL(c) : S2.sess[e.b][x] # S.sess[e.b][x]}}
       \cup (IF S2.cookie[e.b] # 0 THEN {"C10.cookieRemoved"} ELSE {})
  ELSE IF e.act = "Logout"
  THEN (IF S2.sess[e.b].uid # S.sess[e.b].uid /\ ~Has(c, "remember") /\ ~Has(c, "expire")
        THEN {"C10.onlyConfiguredMethod"} ELSE {})
  ELSE {}

-----------------------------------------------------------------------------

PropViolations(S, S2, c, e, r) ==
  C01_V(S, S2, c, e) \cup C10_V(S, S2, c, e)

=============================================================================
