--------------------------- MODULE RedirectGuard ---------------------------
(***************************************************************************)
(* C15: client-supplied return targets.  Strings over an alphabet of       *)
(* URL-significant symbols; Resolve(s) is how a browser (WHATWG URL        *)
(* parsing against an https://site/dir/page base) classifies the value in  *)
(* the WORST case over the concrete characters a symbol stands for;        *)
(* Follows(s) is the guard: whether a login-type flow sends the browser to *)
(* s instead of the configured default.  TLC enumerates every string up to *)
(* MaxLen and checks NoOffSite and StillUseful; the harness sends          *)
(* concretisations of every string through the real flows and compares the *)
(* decision, and classifies the real Location with an independent oracle.  *)
(*                                                                         *)
(* symbols:  S '/'   B '\'   C tab/CR/LF (removed anywhere by browsers)    *)
(*           X other C0 control or DEL   Z space (both stripped at the     *)
(*           ends)   L letter   D digit or '.'   K ':'   Q '?'   H '#'     *)
(*           P '%'   A '@'                                                  *)
(***************************************************************************)
EXTENDS Integers, Sequences, TLC, Json

CONSTANTS MaxLen

VARIABLES str, out, js

Sym == {"S", "B", "C", "X", "Z", "L", "D", "K", "Q", "H", "P", "A"}

Strings == UNION { [1..n -> Sym] : n \in 0..MaxLen }

-----------------------------------------------------------------------------
(* browser side *)

RECURSIVE StripLead(_)
\* leading/trailing C0 controls (tab, CR, LF are C0 controls too) and spaces go first
StripLead(s) == IF s # <<>> /\ Head(s) \in {"X", "Z", "C"} THEN StripLead(Tail(s)) ELSE s
RECURSIVE StripTrail(_)
StripTrail(s) == IF s # <<>> /\ s[Len(s)] \in {"X", "Z", "C"} THEN StripTrail(SubSeq(s, 1, Len(s) - 1)) ELSE s

Pre(s) == SelectSeq(StripTrail(StripLead(s)), LAMBDA c : c # "C")

Slashy(c) == c \in {"S", "B"}     \* '\' is '/' for special schemes

\* s begins  letter (letter|digit|.)* ':'
RECURSIVE SchemeRest(_)
SchemeRest(s) == IF s = <<>> THEN FALSE
                 ELSE IF Head(s) = "K" THEN TRUE
                 ELSE IF Head(s) \in {"L", "D"} THEN SchemeRest(Tail(s)) ELSE FALSE
HasScheme(s) == s # <<>> /\ Head(s) = "L" /\ SchemeRest(Tail(s))

\* worst case: a scheme prefix can be another scheme (http:, javascript:) or the
\* base scheme followed by slashes; two leading slash-likes start an authority
Resolve(s) ==
  LET p == Pre(s) IN
  IF HasScheme(p) THEN "offsite"
  ELSE IF Len(p) >= 2 /\ Slashy(p[1]) /\ Slashy(p[2]) THEN "offsite"
  ELSE "samesite"

-----------------------------------------------------------------------------
(* the guard: only site-absolute paths, no backslash, no control characters *)

Follows(s) ==
  /\ s # <<>> /\ s[1] = "S"
  /\ (Len(s) >= 2 => s[2] # "S")
  /\ \A i \in 1..Len(s) : s[i] \notin {"B", "C", "X"}

PlainPath(s) == s # <<>> /\ s[1] = "S" /\ (Len(s) >= 2 => s[2] # "S")
                /\ \A i \in 1..Len(s) : s[i] \in {"S", "L", "D", "Q", "P", "H", "K", "A", "Z"}

Init == \E s \in Strings : str = s /\ out = [follows |-> Follows(s), resolve |-> Resolve(s)]
                           /\ js = ToJson([s |-> s, follows |-> Follows(s), resolve |-> Resolve(s)])
Next == UNCHANGED <<str, out, js>>
Spec == Init /\ [][Next]_<<str, out, js>>

NoOffSite   == out.follows => out.resolve = "samesite"
StillUseful == PlainPath(str) => out.follows
=============================================================================
