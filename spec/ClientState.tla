---------------------------- MODULE ClientState ----------------------------
(***************************************************************************)
(* C11: authboss.ClientStateResponseWriter.  A handler program is a         *)
(* sequence of operations on the two client-state stores interleaved with  *)
(* header / body writes and reads, executed through a stack of response    *)
(* writer wrappers.  Run(prog) is the reference semantics: what each store *)
(* receives (one WriteState call at most, events in program order, never   *)
(* mixed), where it sits relative to the first header/body byte, and what  *)
(* every read returns.  TLC enumerates every program up to MaxLen and      *)
(* checks the property clauses; the harness interprets every program       *)
(* against the real writer and compares the wire exactly.                  *)
(***************************************************************************)
EXTENDS Integers, Sequences, FiniteSets, TLC, Json

CONSTANTS MaxLen

VARIABLES prog, out, js

\* k1 is an application key (present in both stores at the start of the request); the other key of
\* each store is the library's own "known" key there: the session's user id, the remember cookie
SKeys == {"k1", "uid"}
CKeys == {"k1", "rm"}

Ops == [op : {"PutS", "DelS", "ReadS"}, k : SKeys] \cup [op : {"PutC", "DelC", "ReadC"}, k : CKeys]
       \cup { [op |-> o, k |-> "-"] : o \in {"DelAllS", "DelKnownS", "DelKnownC", "WriteHeader", "Write"} }
       \* (the library exposes delete-all for the session store only; DelKnownSession / DelKnownCookie are
       \*  the exported helpers that delete the library's own keys one by one)

SessOps   == {"PutS", "DelS", "DelAllS", "DelKnownS"}
CookieOps == {"PutC", "DelC", "DelKnownC"}
WriteOps  == {"WriteHeader", "Write"}

\* request-scoped read state: k1 is present in both stores, k2 absent
InitVal(store, k) == IF k = "k1" THEN store \o ":i1" ELSE "absent"

Del(k) == [kind |-> "del", key |-> k, val |-> ""]
\* the events one operation queues
Evs(o) == CASE o.op \in {"PutS", "PutC"} -> <<[kind |-> "put", key |-> o.k, val |-> "v-" \o o.k]>>
            [] o.op \in {"DelS", "DelC"} -> <<Del(o.k)>>
            [] o.op = "DelAllS"   -> <<[kind |-> "delall", key |-> "wl", val |-> ""]>>
            [] o.op = "DelKnownS" -> <<Del("uid"), Del("halfauth"), Del("last_action")>>
            [] o.op = "DelKnownC" -> <<Del("rm")>>
            [] OTHER -> <<>>

RECURSIVE Run(_, _)
\* s = [pendS, pendC, written, wire, reads]
Run(p, s) ==
  IF p = <<>> THEN s
  ELSE LET o == Head(p) IN
       Run(Tail(p),
         CASE o.op \in SessOps   -> [s EXCEPT !.pendS = @ \o Evs(o)]
           [] o.op \in CookieOps -> [s EXCEPT !.pendC = @ \o Evs(o)]
           [] o.op = "ReadS"     -> [s EXCEPT !.reads = Append(@, InitVal("s", o.k))]
           [] o.op = "ReadC"     -> [s EXCEPT !.reads = Append(@, InitVal("c", o.k))]
           [] o.op \in WriteOps  ->
                LET flush == IF s.written THEN <<>>
                             ELSE (IF s.pendS # <<>> THEN <<[t |-> "S", evs |-> s.pendS]>> ELSE <<>>)
                                  \o (IF s.pendC # <<>> THEN <<[t |-> "C", evs |-> s.pendC]>> ELSE <<>>)
                IN  [s EXCEPT !.written = TRUE,
                              !.wire = @ \o flush \o <<[t |-> IF o.op = "Write" THEN "B" ELSE "H", evs |-> <<>>]>>])

S0 == [pendS |-> <<>>, pendC |-> <<>>, written |-> FALSE, wire |-> <<>>, reads |-> <<>>]

Result(p) == LET s == Run(p, S0) IN [wire |-> s.wire, reads |-> s.reads]

Programs == UNION { [1..n -> Ops] : n \in 0..MaxLen }

Init == \E p \in Programs : prog = p /\ out = Result(p) /\ js = ToJson([prog |-> p, out |-> Result(p)])
Next == UNCHANGED <<prog, out, js>>
Spec == Init /\ [][Next]_<<prog, out, js>>

-----------------------------------------------------------------------------
(* property clauses, for every program *)

Idx(t) == {i \in 1..Len(out.wire) : out.wire[i].t = t}
FirstWrite == IF \E i \in 1..Len(prog) : prog[i].op \in WriteOps
              THEN CHOOSE i \in 1..Len(prog) : prog[i].op \in WriteOps /\ \A j \in 1..(i - 1) : prog[j].op \notin WriteOps
              ELSE Len(prog) + 1
Before(kindSet) == SelectSeq(SubSeq(prog, 1, FirstWrite - 1), LAMBDA o : o.op \in kindSet)
RECURSIVE EvSeq(_)
EvSeq(ops) == IF ops = <<>> THEN <<>> ELSE Evs(Head(ops)) \o EvSeq(Tail(ops))

ExactlyOnce == Cardinality(Idx("S")) <= 1 /\ Cardinality(Idx("C")) <= 1
\* delivered iff the handler wrote at all and made a change before that; in order; never mixed
InOrderSeparated ==
  /\ (Idx("S") # {}) <=> (FirstWrite <= Len(prog) /\ Before(SessOps) # <<>>)
  /\ (Idx("C") # {}) <=> (FirstWrite <= Len(prog) /\ Before(CookieOps) # <<>>)
  /\ \A i \in Idx("S") : out.wire[i].evs = EvSeq(Before(SessOps))
  /\ \A i \in Idx("C") : out.wire[i].evs = EvSeq(Before(CookieOps))
BeforeFirstByte == \A i \in Idx("S") \cup Idx("C") : \A j \in Idx("H") \cup Idx("B") : i < j
StableReads ==
  LET rs == SelectSeq(prog, LAMBDA o : o.op \in {"ReadS", "ReadC"}) IN
  /\ Len(out.reads) = Len(rs)
  /\ \A i \in 1..Len(rs) : out.reads[i] = InitVal(IF rs[i].op = "ReadS" THEN "s" ELSE "c", rs[i].k)
=============================================================================
