----------------------------- MODULE Schedules -----------------------------
(***************************************************************************)
(* C20 below the request: two requests of two clients on different         *)
(* accounts, in flight on one instance at the same time.  A request is a    *)
(* sequence of segments separated by its backend calls (the points where    *)
(* the harness store can hold a request); a schedule says which request     *)
(* runs its next segment.  TLC enumerates EVERY schedule for every pair of  *)
(* call counts up to MaxCalls; the harness replays each one against the     *)
(* real instance (a gate in the store serialises the two requests exactly   *)
(* as the schedule says) and compares what each client observed with the    *)
(* same request run alone.                                                  *)
(*                                                                         *)
(* The design statement checked here: a request reads and writes only the  *)
(* records of its own account (and its own request-scoped state), so every  *)
(* schedule gives each client its solo observations (Independent).  With    *)
(* SharedScratch = TRUE the requests also keep something in a cell they     *)
(* share between two calls - a package-level variable, a field of the       *)
(* module object - and TLC finds the schedule that breaks it: the invariant *)
(* is not vacuous, and that is the kind of defect the replay looks for.     *)
(***************************************************************************)
EXTENDS Integers, Sequences, TLC, Json

CONSTANTS MaxCalls,        \* bound on the backend calls of one request
          SharedScratch    \* negative control: the requests share a scratch cell

VARIABLES na, nb,          \* backend calls request A / B makes
          pa, pb,          \* segments completed (the request is finished at n+1)
          db,              \* account -> version (the records a request works on)
          scratch,         \* the shared cell (only used when SharedScratch)
          mem,             \* request -> what it holds in memory between calls
          obs,             \* request -> the sequence of values it has read
          sched,           \* the schedule so far
          js

vars == <<na, nb, pa, pb, db, scratch, mem, obs, sched, js>>

Reqs == {"a", "b"}
N(r) == IF r = "a" THEN na ELSE nb
P(r) == IF r = "a" THEN pa ELSE pb

\* segment k of request r (k = 1 .. n+1) ends with backend call k (none after the last):
\* odd calls load the own record, even calls save what was loaded plus one
Seg(r, k) ==
  LET own == r
      val == IF SharedScratch THEN scratch ELSE mem[r]
  IN
  IF k > N(r) THEN [db |-> db, scratch |-> scratch, mem |-> mem, obs |-> obs]          \* the tail after the last call
  ELSE IF k % 2 = 1
       THEN [db |-> db, scratch |-> db[own], mem |-> [mem EXCEPT ![r] = db[own]],
             obs |-> [obs EXCEPT ![r] = Append(@, db[own])]]
       ELSE [db |-> [db EXCEPT ![own] = val + 1], scratch |-> scratch, mem |-> mem, obs |-> obs]

Init ==
  /\ na \in 0..MaxCalls /\ nb \in 0..MaxCalls
  /\ pa = 0 /\ pb = 0
  /\ db = [r \in Reqs |-> IF r = "a" THEN 10 ELSE 20]
  /\ scratch = 0
  /\ mem = [r \in Reqs |-> 0]
  /\ obs = [r \in Reqs |-> <<>>]
  /\ sched = <<>>
  /\ js = ""

Step(r) ==
  /\ P(r) <= N(r)
  /\ LET s == Seg(r, P(r) + 1) IN
       /\ db' = s.db /\ scratch' = s.scratch /\ mem' = s.mem /\ obs' = s.obs
  /\ IF r = "a" THEN pa' = pa + 1 /\ pb' = pb ELSE pb' = pb + 1 /\ pa' = pa
  /\ sched' = Append(sched, r)
  /\ js' = IF pa' = na + 1 /\ pb' = nb + 1 THEN ToJson([na |-> na, nb |-> nb, sched |-> sched']) ELSE ""
  /\ UNCHANGED <<na, nb>>

Next == Step("a") \/ Step("b")
Spec == Init /\ [][Next]_vars

Done == pa = na + 1 /\ pb = nb + 1

\* what request r reads when it runs alone from the initial records
RECURSIVE Solo(_, _, _)
Solo(v0, k, n) == IF k > n THEN <<>>
                  ELSE IF k % 2 = 1 THEN <<v0>> \o Solo(v0, k + 1, n)
                  ELSE Solo(v0 + 1, k + 1, n)

Independent ==
  Done => /\ obs["a"] = Solo(10, 1, na)
          /\ obs["b"] = Solo(20, 1, nb)
          /\ db["a"] = 10 + na \div 2 /\ db["b"] = 20 + nb \div 2
=============================================================================
