--------------------------------- MODULE MC ---------------------------------
(***************************************************************************)
(* Model-checking wrapper: bounded exploration of the specification for a  *)
(* family of configurations and events.  TLC checks every property clause  *)
(* of Props.tla on every transition (NoViolation) and, in simulation mode, *)
(* emits the behaviours that are replayed into the real code.              *)
(***************************************************************************)
EXTENDS Props, Json

CONSTANTS Family,     \* which configurations / events to explore
          WithPre,    \* also start from the families' established worlds (PreVariants)
          WithTocks,  \* single-unit clock steps in the families with thresholds (lock, expire, recover)
          MaxNow,     \* bound on the abstract clock
          MaxIss,     \* bound on every issued-secret counter
          MaxDepth,   \* bound on behaviour length (state constraint)
          EmitJson    \* TRUE in simulation runs whose behaviours are replayed into the code

VARIABLES step, seed, js, viol
mvars == <<st, cfg, resp, step, seed, js, viol>>

-----------------------------------------------------------------------------
(* seeding: the accounts created directly in storage before the first step *)

S0(pid, pw, conf) == [pid |-> pid, pw |-> pw, conf |-> conf, totp |-> FALSE, sms |-> 0, otps |-> 0, rc |-> FALSE]

RECURSIVE SeedFold(_, _, _)
SeedFold(sd, db, iss) ==
  IF sd = <<>> THEN [db |-> db, iss |-> iss]
  ELSE LET s  == Head(sd)
           ts == IF s.totp THEN iss["ts"] + 1 ELSE 0
           o1 == iss["otp"]
           g  == IF s.rc THEN iss["rc"] + 1 ELSE 0
           u  == [NoUser EXCEPT !.ex = TRUE, !.pw = s.pw, !.conf = s.conf, !.totp = ts, !.sms = s.sms,
                                !.otps = (o1 + 1)..(o1 + s.otps), !.rcg = g,
                                !.rcLeft = IF s.rc THEN 1..10 ELSE {}]
           i2 == [iss EXCEPT !["ts"] = IF s.totp THEN @ + 1 ELSE @, !["otp"] = @ + s.otps,
                             !["rc"] = IF s.rc THEN @ + 1 ELSE @]
       IN  SeedFold(Tail(sd), [db EXCEPT ![s.pid] = u], i2)

SeedState(sd) ==
  LET f == SeedFold(sd, [p \in Pids |-> NoUser], [k \in Kinds |-> 0])
  IN  [InitState(f.db) EXCEPT !.iss = f.iss]

-----------------------------------------------------------------------------
(* configurations *)

C0 == [modules |-> <<>>, lockAfter |-> 2, lockWindow |-> 2, lockDuration |-> 2, expireAfter |-> 2,
       recoverTTL |-> 2, recoverLogin |-> FALSE, emailAuth |-> FALSE, totpOneTime |-> FALSE,
       whitelist |-> <<>>, logoutMethod |-> "DELETE", mwReqs |-> 0, mwFail |-> "404",
       errWrites |-> FALSE, json |-> FALSE, mailGo |-> FALSE, foldPid |-> FALSE, regNoWhitelist |-> FALSE, appHandles2FA |-> FALSE]

Ev(act, b) == [E0 EXCEPT !.act = act, !.b = b]

Seed2 == <<S0("u1", 1, TRUE), S0("u2", 2, TRUE)>>
SeedUnconf == <<S0("u1", 1, TRUE), S0("u2", 2, FALSE)>>

\* fault families (C18): the worlds and events of a base family, every request also with
\* each of its backend calls failing, under both error handlers and both response modes
FaultFamilies == {"f_login", "f_remember", "f_recover", "f_register", "f_twofa", "f_smsswitch", "f_tfasetup", "f_otp", "f_oauth", "f_expire"}
Base == CASE Family = "f_login" -> "login" [] Family = "f_remember" -> "remember" [] Family = "f_recover" -> "recover"
          [] Family = "f_register" -> "register" [] Family = "f_twofa" -> "twofa" [] Family = "f_smsswitch" -> "smsswitch"
          [] Family = "f_tfasetup" -> "tfasetup" [] Family = "f_otp" -> "otp" [] Family = "f_oauth" -> "oauth"
          [] Family = "f_expire" -> "expire" [] OTHER -> Family
MaxFaultIdx == 9     \* no modelled request makes more backend calls than this (checked: CallsBound)

\* [cfg, seed] pairs
WorldsOf(Fam) ==
  CASE Fam = "login" ->
         { [cfg |-> [C0 EXCEPT !.modules = m], seed |-> s] :
             m \in { <<"auth", "logout">>,
                     <<"auth", "lock", "confirm", "logout">>,
                     <<"confirm", "lock", "auth", "logout">> },
             s \in {Seed2, SeedUnconf} }
    [] Fam = "lock" ->
         { [cfg |-> [C0 EXCEPT !.modules = <<"auth", "lock", "logout">>, !.lockAfter = la,
                               !.lockWindow = w, !.lockDuration = d], seed |-> Seed2] :
             la \in {1, 2}, w \in {1, 2}, d \in {1, 3} }
    [] Fam = "remember" ->
         { [cfg |-> [C0 EXCEPT !.modules = m, !.recoverLogin = rl, !.mwReqs = 1], seed |-> Seed2] :
             m \in { <<"auth", "remember", "logout">>, <<"auth", "remember", "recover", "logout">> },
             rl \in BOOLEAN }
    [] Fam = "expire" ->
         { [cfg |-> [C0 EXCEPT !.modules = <<"auth", "expire", "logout">>, !.expireAfter = ea,
                               !.whitelist = wl], seed |-> Seed2] :
             ea \in {1, 2}, wl \in { <<>>, <<"app1">> } }
    [] Fam = "recover" ->
         { [cfg |-> [C0 EXCEPT !.modules = m, !.recoverLogin = rl, !.recoverTTL = 1], seed |-> s] :
             m \in { <<"auth", "recover", "logout">>, <<"auth", "recover", "confirm", "lock", "logout">> },
             rl \in BOOLEAN, s \in {Seed2, SeedUnconf} }
    [] Fam = "register" ->
         { [cfg |-> [C0 EXCEPT !.modules = m], seed |-> <<S0("u1", 1, TRUE)>>] :
             m \in { <<"auth", "register", "logout">>, <<"auth", "register", "confirm", "logout">> } }
    [] Fam = "twofa" ->       \* second-step logins: victim u1 (TOTP), attacker-owned u2 (SMS on phone 1)
         { [cfg |-> [C0 EXCEPT !.modules = m, !.totpOneTime = ot, !.recoverLogin = TRUE, !.lockAfter = 1],
            seed |-> << [S0("u1", 1, TRUE) EXCEPT !.totp = TRUE, !.rc = TRUE],
                        [S0("u2", 2, TRUE) EXCEPT !.sms = 1, !.rc = TRUE] >>] :
             m \in { <<"auth", "totp", "sms", "logout">>, <<"auth", "sms", "totp", "lock", "logout">>,
                     <<"auth", "otp", "recover", "totp", "sms", "logout">>,
                     <<"auth", "remember", "totp", "sms", "logout">> },     \* (logins then ask to be remembered)
             ot \in BOOLEAN }
    [] Fam = "smsswitch" ->   \* both accounts use SMS (different phones): pending-login switches
         { [cfg |-> [C0 EXCEPT !.modules = <<"auth", "sms", "logout">>],
            seed |-> << [S0("u1", 1, TRUE) EXCEPT !.sms = 1, !.rc = TRUE],
                        [S0("u2", 2, TRUE) EXCEPT !.sms = 2] >>] }
    [] Fam = "tfasetup" ->    \* enrolment / removal / regeneration, with and without e-mail authorisation
         { [cfg |-> [C0 EXCEPT !.modules = m, !.emailAuth = ea, !.appHandles2FA = ea], seed |-> Seed2] :
             m \in { <<"auth", "totp", "sms", "recovery", "logout">>,
                     <<"auth", "remember", "totp", "sms", "recovery", "logout">> },
             ea \in BOOLEAN }
         \* ... and starting from established sessions (`pre` runs before the exploration):
         \* an account with SMS (resp. TOTP) 2FA, fully logged in through its second factor
         \cup { [cfg |-> [C0 EXCEPT !.modules = <<"auth", "totp", "sms", "recovery", "logout">>],
                 seed |-> << [S0("u1", 1, TRUE) EXCEPT !.sms = 1, !.rc = TRUE], [S0("u2", 2, TRUE) EXCEPT !.totp = TRUE, !.rc = TRUE] >>,
                 pre |-> pr] :
               pr \in { << [Ev("LoginPost", "b1") EXCEPT !.pid = "u1", !.pw = 1], [Ev("SmsValidate", "b1") EXCEPT !.code = 1],
                           [Ev("Tick", NONE) EXCEPT !.d = 1] >>,
                        << [Ev("LoginPost", "b1") EXCEPT !.pid = "u2", !.pw = 2], [Ev("TotpValidate", "b1") EXCEPT !.tok = 1, !.code = 1] >> } }
         \* an account that enrolled TOTP after a remembered login, now back on its cookie alone (half-authenticated)
         \cup { [cfg |-> [C0 EXCEPT !.modules = <<"auth", "remember", "totp", "sms", "recovery", "logout">>],
                 seed |-> Seed2,
                 pre |-> << [Ev("LoginPost", "b1") EXCEPT !.pid = "u1", !.pw = 1, !.rm = TRUE], Ev("TotpSetup", "b1"),
                            [Ev("TotpConfirm", "b1") EXCEPT !.tok = 1, !.code = 1], Ev("DropSession", "b1") >>] }
         \* a plain account, logged in
         \cup { [cfg |-> [C0 EXCEPT !.modules = <<"auth", "totp", "sms", "recovery", "logout">>, !.emailAuth = ea, !.appHandles2FA = ea],
                 seed |-> Seed2, pre |-> << [Ev("LoginPost", "b1") EXCEPT !.pid = "u1", !.pw = 1] >>] : ea \in BOOLEAN }
    [] Fam = "otp" ->
         { [cfg |-> [C0 EXCEPT !.modules = m, !.lockAfter = 1],
            seed |-> << [S0("u1", 1, TRUE) EXCEPT !.otps = 2], [S0("u2", 2, TRUE) EXCEPT !.otps = 4] >>] :
             m \in { <<"auth", "otp", "logout">>, <<"auth", "otp", "lock", "logout">> } }
    [] Fam = "indep" ->       \* two clients on disjoint accounts / browsers (C20)
         { [cfg |-> [C0 EXCEPT !.modules = m, !.recoverLogin = TRUE],
            seed |-> << [S0("u1", 1, TRUE) EXCEPT !.otps = 1], [S0("u2", 2, TRUE) EXCEPT !.otps = 1] >>] :
             m \in { <<"auth", "lock", "recover", "otp", "logout">>, <<"auth", "remember", "recover", "otp", "logout">> } }
    [] Fam = "oauth" ->
         { [cfg |-> [C0 EXCEPT !.modules = m, !.errWrites = ew], seed |-> <<S0("u1", 1, TRUE)>>] :
             m \in { <<"auth", "oauth2", "logout">>, <<"auth", "oauth2", "lock", "remember", "logout">> },
             ew \in BOOLEAN }

\* established parts that put a family's worlds where its interesting flows start (WithPre)
PreVariants(Fam) ==
  CASE Fam = "remember" -> { << [Ev("LoginPost", "b1") EXCEPT !.pid = "u1", !.pw = 1, !.rm = TRUE], Ev("DropSession", "b1") >>,
                             \* ... and somebody else logged in on the other browser
                             << [Ev("LoginPost", "b1") EXCEPT !.pid = "u1", !.pw = 1, !.rm = TRUE], Ev("DropSession", "b1"),
                                [Ev("LoginPost", "b2") EXCEPT !.pid = "u2", !.pw = 2] >> }
    [] Fam = "expire"   -> { << [Ev("LoginPost", "b1") EXCEPT !.pid = "u1", !.pw = 1] >> }
    [] Fam = "recover"  -> { << [Ev("RecoverStart", "b1") EXCEPT !.pid = "u1"] >> }
    [] Fam = "otp"      -> { << [Ev("LoginPost", "b1") EXCEPT !.pid = "u2", !.pw = 2] >> }
    [] Fam = "oauth"    -> { << [Ev("OAuthStart", "b1") EXCEPT !.prov = "pa", !.rm = TRUE] >> }
    [] Fam = "twofa"    -> { << [Ev("LoginPost", "b1") EXCEPT !.pid = "u1", !.pw = 1] >>, << [Ev("LoginPost", "b1") EXCEPT !.pid = "u2", !.pw = 2] >> }
    [] Fam = "lock"     -> { << [Ev("LoginPost", "b1") EXCEPT !.pid = "u1", !.pw = -1] >> }
    [] OTHER -> {}

Worlds ==
  IF Family \in FaultFamilies
  THEN { [w EXCEPT !.cfg.errWrites = ew, !.cfg.json = jm] : w \in WorldsOf(Base), ew \in BOOLEAN, jm \in BOOLEAN }
  ELSE WorldsOf(Family)
       \cup (IF WithPre THEN { [cfg |-> w.cfg, seed |-> w.seed, pre |-> p] :
                                 w \in {x \in WorldsOf(Family) : "pre" \notin DOMAIN x}, p \in PreVariants(Family) }
             ELSE {})

-----------------------------------------------------------------------------
(* events *)

LoginEvents ==
  { [Ev("LoginPost", b) EXCEPT !.pid = p, !.pw = w, !.rm = r] :
      b \in Browsers, p \in {"u1", "u2", "g1"}, w \in {1, 2, -1}, r \in BOOLEAN }

ProbeLogout(c) ==
  { [Ev("Probe", b) EXCEPT !.k = k] : b \in Browsers, k \in {NONE, "alt1", "bare"} } \cup
  { [Ev("Get", b) EXCEPT !.k = "login"] : b \in Browsers } \cup
  { [Ev("Logout", b) EXCEPT !.method = m] : b \in Browsers, m \in {c.logoutMethod, "GET", "HEAD"} }

Ticks(ds) == { [Ev("Tick", NONE) EXCEPT !.d = d] : d \in ds }
\* single units: with whole ticks they reach both sides of every threshold (Thr(k) = G*k + 5) to the unit
Tocks(ds) == IF WithTocks THEN { [Ev("Tock", NONE) EXCEPT !.d = d] : d \in ds } ELSE {}

Admin(acts, ps) == { [Ev(a, NONE) EXCEPT !.pid = p] : a \in acts, p \in ps }

EventsOf(Fam, S, c) ==
  CASE Fam = "login" ->
         LoginEvents \cup ProbeLogout(c) \cup Ticks({1, 3})
         \cup (IF Has(c, "lock") THEN Admin({"AdminLock", "AdminUnlock"}, {"u1"}) ELSE {})
         \cup (IF Has(c, "confirm") THEN Admin({"RestartConfirm"}, {"u1"}) ELSE {})
         \cup (IF Has(c, "confirm")
               THEN { [Ev("ConfirmGet", b) EXCEPT !.tok = t] : b \in {"b1"}, t \in {-1} \cup 1..S.iss["ct"] }
               ELSE {})
    [] Fam = "lock" ->
         { [Ev("LoginPost", "b1") EXCEPT !.pid = p, !.pw = w] : p \in {"u1", "u2"}, w \in {1, 2, -1} }
         \cup Ticks({1, c.lockWindow, c.lockWindow + 1, c.lockDuration, c.lockDuration + 1}) \cup Tocks({5, 6})
         \cup Admin({"AdminLock", "AdminUnlock"}, {"u1"})
         \cup { Ev("Probe", "b1") }
    [] Fam = "remember" ->
         UNION { { [Ev("LoginPost", b) EXCEPT !.pid = pw[1], !.pw = w, !.rm = r] : b \in Browsers, w \in {pw[2], -1}, r \in BOOLEAN } :
                   pw \in { <<"u1", 1>>, <<"u2", 2>> } }
         \cup ProbeLogout(c)
         \cup { [Ev("StealCookie", "b1") EXCEPT !.k = "b2"], Ev("DropSession", "b1"), Ev("DropSession", "b2"),
                Ev("JunkCookie", "b2") }
         \cup { [Ev("UpdatePassword", NONE) EXCEPT !.pid = "u1", !.pw = 3] }
         \cup (IF Has(c, "recover")
               THEN { [Ev("RecoverStart", "b1") EXCEPT !.pid = "u1"] }
                    \cup { [Ev("RecoverEnd", b) EXCEPT !.tok = t, !.pw = 3] : b \in Browsers, t \in 1..S.iss["rt"] }
               ELSE {})
    [] Fam = "expire" ->
         { [Ev("LoginPost", b) EXCEPT !.pid = "u1", !.pw = 1] : b \in Browsers }
         \cup ProbeLogout(c) \cup Ticks({1, c.expireAfter, c.expireAfter + 1}) \cup Tocks({1, 5, 6})
         \cup { [Ev("AppKey", "b1") EXCEPT !.k = k] : k \in {"app1", "app2"} }
    [] Fam = "recover" ->
         { [Ev("LoginPost", "b1") EXCEPT !.pid = p, !.pw = w] : p \in {"u1", "u2"}, w \in {1, 2, 3} }
         \cup { [Ev("RecoverStart", "b1") EXCEPT !.pid = p] : p \in {"u1", "u2", "g1"} }
         \cup { [Ev("RecoverEnd", b) EXCEPT !.tok = t, !.pw = 3, !.valid = v] :
                  b \in Browsers, t \in {-1} \cup 1..S.iss["rt"], v \in BOOLEAN }
         \cup Ticks({1, 2}) \cup Tocks({5, 6}) \cup { Ev("Probe", "b1"), Ev("Probe", "b2") }
         \cup (IF Has(c, "lock") THEN Admin({"AdminLock"}, {"u1"}) ELSE {})
    [] Fam = "register" ->
         { [Ev("RegisterPost", b) EXCEPT !.pid = p, !.pw = w, !.valid = v] :
              b \in Browsers, p \in {"u1", "u2"}, w \in {1, 2}, v \in BOOLEAN }
         \cup LoginEvents \cup ProbeLogout(c)
         \cup (IF Has(c, "confirm")
               THEN { [Ev("ConfirmGet", b) EXCEPT !.tok = t] : b \in {"b1"}, t \in {-1} \cup 1..S.iss["ct"] }
               ELSE {})

    [] Fam = "twofa" ->
         { [Ev("LoginPost", b) EXCEPT !.pid = p, !.pw = w, !.rm = Has(c, "remember")] : b \in Browsers, p \in {"u1", "u2"}, w \in {1, 2} }
         \cup (IF Has(c, "remember") THEN { Ev("DropSession", "b1") } ELSE {})
         \cup { [Ev("TotpValidate", b) EXCEPT !.tok = 1, !.code = k] : b \in Browsers, k \in {1, 3, -1} }
         \cup { [Ev("TotpValidate", b) EXCEPT !.rc = i, !.g = g] : b \in Browsers, i \in {1}, g \in {1, 2} }
         \cup { [Ev("SmsValidate", b) EXCEPT !.code = k] : b \in Browsers, k \in {0, -1} \cup 1..S.iss["sc"] }
         \cup { [Ev("SmsValidate", b) EXCEPT !.rc = 1, !.g = g] : b \in Browsers, g \in {1, 2} }
         \cup Ticks({1}) \cup { Ev("Probe", b) : b \in Browsers }
         \cup (IF Has(c, "lock") THEN Admin({"AdminLock"}, {"u1", "u2"}) ELSE {})
         \cup (IF Has(c, "otp") THEN { [Ev("OtpLoginPost", "b1") EXCEPT !.pid = "u1", !.tok = 1] } ELSE {})
         \cup (IF Has(c, "recover")
               THEN { [Ev("RecoverStart", "b1") EXCEPT !.pid = "u1"] }
                    \cup { [Ev("RecoverEnd", "b1") EXCEPT !.tok = t, !.pw = 3] : t \in 1..S.iss["rt"] }
               ELSE {})
    [] Fam = "smsswitch" ->
         { [Ev("LoginPost", "b1") EXCEPT !.pid = p, !.pw = w] : p \in {"u1", "u2"}, w \in {1, 2} }
         \cup { [Ev("SmsValidate", "b1") EXCEPT !.code = k] : k \in {0, -1} \cup 1..S.iss["sc"] }
         \cup { [Ev("SmsValidate", "b1") EXCEPT !.rc = 1, !.g = 1] }
         \cup Ticks({1}) \cup { Ev("Probe", "b1"), [Ev("Logout", "b1") EXCEPT !.method = c.logoutMethod] }
    [] Fam = "tfasetup" ->
         { [Ev("LoginPost", b) EXCEPT !.pid = p, !.pw = w, !.rm = Has(c, "remember")] :
              b \in {"b1"}, p \in {"u1", "u2"}, w \in {1, 2} }
         \cup { Ev(a, "b1") : a \in {"TotpSetup", "SmsSetupGet", "RecoveryRegen"} }
         \cup { [Ev("Get", "b1") EXCEPT !.k = k] : k \in {"totpConfirm", "totpRemove", "smsConfirm", "recoveryRegen"} }
         \cup { [Ev("TotpConfirm", "b1") EXCEPT !.tok = t, !.code = k] : t \in 1..S.iss["ts"], k \in {1, -1} }
         \cup { [Ev("TotpRemove", "b1") EXCEPT !.tok = t, !.code = k] : t \in 1..S.iss["ts"], k \in {3, -1} }
         \cup { [Ev("TotpRemove", "b1") EXCEPT !.rc = 1, !.g = g] : g \in 1..S.iss["rc"] }
         \cup { [Ev("SmsSetup", "b1") EXCEPT !.phone = ph] : ph \in {1, 2} }
         \cup { [Ev(a, "b1") EXCEPT !.code = k] : a \in {"SmsConfirm", "SmsRemove"}, k \in {0, -1} \cup 1..S.iss["sc"] }
         \cup (IF c.emailAuth
               THEN { [Ev("EmailVerifyStart", "b1") EXCEPT !.kind = k] : k \in {"totp", "sms"} }
                    \cup { [Ev("EmailVerifyEnd", "b1") EXCEPT !.kind = "totp", !.tok = t] : t \in {-1} \cup 1..S.iss["tt"] }
               ELSE {})
         \cup Ticks({1})
         \cup (IF Has(c, "remember") THEN { Ev("DropSession", "b1") } ELSE {})
    [] Fam = "otp" ->
         { [Ev("OtpLoginPost", b) EXCEPT !.pid = p, !.tok = t] :
              b \in Browsers, p \in {"u1", "u2"}, t \in {-1} \cup 1..S.iss["otp"] }
         \cup { Ev(a, "b1") : a \in {"OtpAdd", "OtpClear", "Probe"} }
         \cup { [Ev("LoginPost", "b1") EXCEPT !.pid = "u2", !.pw = 2] }
         \cup Ticks({3})
    [] Fam = "indep" ->
         ClientEvents(S, c, "b1", "u1") \cup ClientEvents(S, c, "b2", "u2") \cup Ticks({1})
    [] Fam = "oauth" ->
         { [Ev("OAuthStart", b) EXCEPT !.prov = p, !.rm = r] : b \in Browsers, p \in {"pa", "pb"}, r \in BOOLEAN }
         \cup { [Ev("OAuthCallback", b) EXCEPT !.prov = p, !.tok = t, !.outcome = o] :
                  b \in Browsers, p \in {"pa", "pb"}, t \in {-1} \cup 1..S.iss["os"],
                  o \in {"x", "y", "error", "exchangeFail"} }
         \cup ProbeLogout(c)
         \cup { [Ev("LoginPost", "b1") EXCEPT !.pid = p, !.pw = -1] : p \in {"o_pa_x", "u1"} }
         \cup (IF Has(c, "lock") THEN Admin({"AdminLock"}, {"o_pa_x"}) ELSE {})

WithFaults(E) ==
  E \cup { [e EXCEPT !.fault = n, !.faultE = k] :
              e \in {x \in E : x.act \in RequestActs}, n \in 1..MaxFaultIdx, k \in {"io", "notfound"} }

Events(S, c) == IF Family \in FaultFamilies THEN WithFaults(EventsOf(Base, S, c)) ELSE EventsOf(Family, S, c)

-----------------------------------------------------------------------------

\* a world may name events that run before the exploration starts (an established session, ...)
PreOf(w) == IF "pre" \in DOMAIN w THEN w.pre ELSE <<>>
RECURSIVE RunPre(_, _, _)
RunPre(S, c, es) == IF es = <<>> THEN S ELSE RunPre(Apply(S, c, Head(es)).st, c, Tail(es))

Init ==
  /\ \E w \in Worlds : /\ cfg = w.cfg /\ seed = w.seed /\ st = RunPre(SeedState(w.seed), w.cfg, PreOf(w))
                        /\ js = IF EmitJson THEN ToJson([cfg |-> w.cfg, seed |-> w.seed, pre |-> PreOf(w)]) ELSE ""
  /\ resp = R0
  /\ step = E0
  /\ viol = {}

Next ==
  \E e \in Events(st, cfg) :
    LET r == Apply(st, cfg, e) IN
      /\ e.fault = 0 \/ r.resp.faultHit          \* (a fault index beyond the calls the request makes is no fault)
      /\ st' = r.st
      /\ resp' = r.resp
      /\ step' = e
      /\ viol' = IF e.fault = 0 THEN PropViolations(st, r.st, cfg, e, r.resp)
                 ELSE FaultViolations(st, r.st, cfg, e, r.resp, Apply(st, cfg, [e EXCEPT !.fault = 0]))
                      \cup (PropViolations(st, r.st, cfg, e, r.resp) \cap FaultTolerantClauses)
      /\ js' = IF EmitJson THEN ToJson(e) ELSE ""
      /\ UNCHANGED <<cfg, seed>>

Spec == Init /\ [][Next]_mvars

Bound ==
  /\ st.now <= G * MaxNow
  /\ \A k \in Kinds : st.iss[k] <= MaxIss
  /\ TLCGet("level") <= MaxDepth

View == <<st, cfg>>

\* every property clause holds on every transition of the specification: `viol`
\* is the set of clause names the last transition violated (not part of the
\* VIEW, so it is evaluated on every generated transition, also into known states)
NoViolation == viol = {}

\* the fault enumeration is complete: no request makes more backend calls than the indices tried
CallsBound == Len(resp.calls) <= MaxFaultIdx

\* C16 at the design level: in every reachable state the paired requests are
\* indistinguishable to the client
NoInterference == NIViolations(st, cfg) = {}

\* C20 at the design level: disjoint clients' requests are independent
Independence == IndependenceViolations(st, cfg) = {}

=============================================================================
