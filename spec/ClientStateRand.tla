-------------------------- MODULE ClientStateRand --------------------------
(* Long handler programs (seeded random, written by `abdrive csrandom`) judged
   by the same reference semantics Result(p) and the same property clauses. *)
EXTENDS ClientState, IOUtils

RandProgs == ndJsonDeserialize(IOEnv.VERIF_PROGS)

InitR == \E i \in 1..Len(RandProgs) :
            /\ prog = RandProgs[i]
            /\ out = Result(RandProgs[i])
            /\ js = ToJson([prog |-> RandProgs[i], out |-> Result(RandProgs[i])])
SpecR == InitR /\ [][Next]_<<prog, out, js>>
=============================================================================
