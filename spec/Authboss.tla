------------------------------ MODULE Authboss ------------------------------
(***************************************************************************)
(* Request-level transition system of volatiletech/authboss as assembled   *)
(* by the harness (real router, body reader, responder, redirector, error  *)
(* handler, client-state writer, every module).                            *)
(*                                                                         *)
(* One step = one request served to completion (or one environment event). *)
(* The whole step semantics is the pure operator Apply(S, c, e): state S,   *)
(* configuration c, event e  |->  [st, resp].  Handlers are written in the *)
(* order the Go code evaluates guards, fires events and queues session     *)
(* changes; queued session/cookie changes reach the stores only if the     *)
(* handler writes a response (ClientStateResponseWriter semantics).        *)
(***************************************************************************)
EXTENDS Integers, Sequences, FiniteSets, TLC

CONSTANTS Pids,      \* account identifiers (strings)
          Browsers   \* browser ids (strings)

NONE  == "none"
NEVER == -1000       \* "no instant" (zero time.Time / absent stamp)
NRC   == 3           \* recovery codes per generation tracked abstractly
G     == 10          \* time units per tick: durations are configured in ticks, time runs in units
\* a duration configured as k ticks is (Thr(k) + 1/2) units on the wall clock: events happen at
\* whole units, so the instant of exact equality with a threshold never occurs
Thr(k) == G * k + G \div 2

VARIABLES st, cfg, resp
vars == <<st, cfg, resp>>

-----------------------------------------------------------------------------
(* Shapes *)

NoUser == [ex |-> FALSE, pw |-> 0, conf |-> FALSE, cTok |-> 0, rTok |-> 0, rExp |-> NEVER,
           att |-> 0, last |-> NEVER, lockedUntil |-> NEVER,
           otps |-> {}, rcg |-> 0, rcLeft |-> {}, totp |-> 0, totpLast |-> 0, sms |-> 0,
           arb |-> {}]

EmptySess == [uid |-> NONE, half |-> FALSE, twofa |-> NONE,
              totpPend |-> NONE, smsPend |-> NONE, smsCode |-> 0, smsLast |-> NEVER,
              totpSetup |-> 0, smsNum |-> 0,
              oState |-> 0, oHas |-> FALSE, oRm |-> FALSE, oRedir |-> NONE,
              tfaTok |-> 0, tfaAuthed |-> FALSE,
              lastAct |-> NEVER, app1 |-> FALSE, app2 |-> FALSE]

SessKeys == DOMAIN EmptySess

Kinds == {"ct", "rt", "rm", "otp", "rc", "sc", "os", "tt", "ts"}

InitState(dbInit) ==
  [now |-> 0, db |-> dbInit, rm |-> {},
   sess |-> [b \in Browsers |-> EmptySess], cookie |-> [b \in Browsers |-> 0],
   iss |-> [k \in Kinds |-> 0],
   scPhone |-> {},       \* ghost: <<sms code id, phone id it was sent to>>
   spent |-> {}]         \* ghost: <<kind, id>> of every secret that has ever stopped being live

\* a step/event record: every field always present
E0 == [act |-> "none", b |-> NONE, pid |-> NONE, pw |-> 0, tok |-> 0, rm |-> FALSE,
       valid |-> TRUE, d |-> 0, method |-> NONE, code |-> 0, rc |-> 0, g |-> 0, kind |-> NONE,
       prov |-> NONE, outcome |-> NONE, phone |-> 0, redir |-> NONE, k |-> NONE,
       wf |-> FALSE,                    \* a rejected token is well formed enough to reach the storage lookup
       fault |-> 0, faultE |-> NONE]    \* the fault-th backend call of this request fails (C18)

R0 == [class |-> "none", loc |-> NONE, ran |-> FALSE, seenUser |-> NONE, seenKeys |-> {},
       mails |-> {}, sms |-> {}, shown |-> {}, leaks |-> {}, calls |-> <<>>, faultHit |-> FALSE]

\* declared secondary e-mail addresses (recovery mail also goes there); the
\* harness seeds u2 with one
Secondary(u) == IF u = "u2" THEN {"u2s"} ELSE {}

-----------------------------------------------------------------------------
(* Configuration helpers *)

Mods(c)   == {c.modules[i] : i \in 1..Len(c.modules)}
Has(c, m) == m \in Mods(c)
Sub(c, S) == SelectSeq(c.modules, LAMBDA m : m \in S)
WL(c)     == {c.whitelist[i] : i \in 1..Len(c.whitelist)}

Locked(u, now) == u.lockedUntil >= now

-----------------------------------------------------------------------------
(* Handler context: the working copy a request operates on *)

\* e.fault = n > 0: the n-th backend call of this request fails with e.faultE
\* ("io": some error; "notfound" / "tokennotfound": the store's not-found errors)
Ctx0(S, c, e) ==
  [db |-> S.db, rm |-> S.rm, iss |-> S.iss, now |-> S.now, b |-> e.b, scPhone |-> S.scPhone,
   rs |-> S.sess[e.b],    \* session as read at request start (stable reads)
   rc |-> S.cookie[e.b],  \* cookie as read at request start
   ps |-> S.sess[e.b],    \* session with queued changes applied
   pc |-> S.cookie[e.b],  \* cookie with queued changes applied
   cu |-> NONE,           \* pid placed in the request context
   loaded |-> NONE,       \* pid of the user object cached in the request context
   json |-> c.json,
   class |-> "none", loc |-> NONE, ran |-> FALSE, seenUser |-> NONE, seenKeys |-> {},
   mails |-> {}, sms |-> {}, shown |-> {},
   calls |-> <<>>,        \* backend calls made so far: storage, hasher, renderers, mailer, SMS sender
   fat |-> e.fault, fkind |-> e.faultE,
   abort |-> NONE,        \* how the request stopped early: "err" | "silent" | "mw500" | "panic"
   snap |-> <<>>,         \* the context at that moment
   pendLast |-> NEVER]    \* TOTP last-code carried by the in-memory user (not yet saved)

Fresh(h, k)  == h.iss[k] + 1
Bump(h, k)   == [h EXCEPT !.iss[k] = @ + 1]

\* a backend call; Hit: it is the one that fails (it then has no effect of its own)
Call(h, kind, key) == [h EXCEPT !.calls = Append(@, [kind |-> kind, key |-> key])]
Hit(h)   == h.fat >= 1 /\ Len(h.calls) = h.fat
HitNF(h) == Hit(h) /\ h.fkind \in {"notfound", "tokennotfound"}

\* the request stops here; whatever the composition below still computes is discarded
\*   "err"    a handler returned the error to ErrorHandler.Wrap
\*   "silent" a middleware logged it and returned
\*   "mw500"  authboss.Middleware2 answers 500 itself
\*   "panic"  lock/confirm.Middleware used without a loadable user
Abort(h, how) == IF h.abort # NONE THEN h ELSE [h EXCEPT !.abort = how, !.snap = <<[h EXCEPT !.abort = how]>>]
Fail(h)       == Abort(h, "err")
Final(h)      == IF h.abort = NONE THEN h ELSE h.snap[1]

\* first response wins (a second WriteHeader changes nothing on the wire)
Respond(h, class, loc) ==
  IF h.class # "none" THEN h ELSE [h EXCEPT !.class = class, !.loc = loc]
\* every page goes through the view renderer; redirects do in API (JSON) mode only
PageVia(h, name, how) ==
  LET hc == Call(h, "Render", "-") IN IF Hit(hc) THEN Abort(hc, how) ELSE Respond(hc, "page", name)
RedirectVia(h, loc, how) ==
  IF ~h.json THEN Respond(h, "redirect", loc)
  ELSE LET hc == Call(h, "Render", "-") IN IF Hit(hc) THEN Abort(hc, how) ELSE Respond(hc, "redirect", loc)
Page(h, name)    == PageVia(h, name, "err")
Redirect(h, loc) == RedirectVia(h, loc, "err")

PutS(h, k, v) == [h EXCEPT !.ps[k] = v]
DelS(h, k)    == [h EXCEPT !.ps[k] = EmptySess[k]]
DelAllS(h, wl) == [h EXCEPT !.ps = [k \in SessKeys |-> IF k \in wl THEN h.ps[k] ELSE EmptySess[k]]]

CurrentUserID(h) == IF h.cu # NONE THEN h.cu ELSE h.rs.uid

\* outcome of running handlers in sequence
HR(h, handled) == [h |-> h, handled |-> handled]

\* Storage.Save of the in-memory user u: a TOTP last-code it carries goes along
SaveLast(h, u) == IF h.pendLast # NEVER THEN [h EXCEPT !.db[u].totpLast = h.pendLast] ELSE h

\* authboss.Email: two templates, then the mailer; a failure is logged and the
\* message is lost (the caller never learns)
Mail(h, m) ==
  LET h1 == Call(h, "RenderMail", "-") IN IF Hit(h1) THEN [h |-> h1, sent |-> FALSE] ELSE
  LET h2 == Call(h1, "RenderMail", "-") IN IF Hit(h2) THEN [h |-> h2, sent |-> FALSE] ELSE
  LET h3 == Call(h2, "SendMail", "-") IN IF Hit(h3) THEN [h |-> h3, sent |-> FALSE]
  ELSE [h |-> [h3 EXCEPT !.mails = @ \cup {m}], sent |-> TRUE]

-----------------------------------------------------------------------------
(* lock module *)

\* lock.updateLockedState for the user u (pid) held in the request context
LockUpdate(h, c, u, correct) ==
  LET r   == h.db[u]
      inW == h.now - r.last <= Thr(c.lockWindow)
      n   == IF correct THEN r.att ELSE IF inW THEN r.att + 1 ELSE 1
      lu  == IF ~correct /\ n >= c.lockAfter THEN h.now + Thr(c.lockDuration) ELSE r.lockedUntil
      hc  == Call(h, "Save", u)
      h1  == SaveLast([hc EXCEPT !.db[u].att = n, !.db[u].last = h.now, !.db[u].lockedUntil = lu], u)
  IN  IF Hit(hc) THEN HR(Fail(hc), FALSE)
      ELSE IF Locked(h1.db[u], h.now) THEN HR(Redirect(h1, "lockNotOK"), TRUE) ELSE HR(h1, FALSE)

LockSuccess(h, u) ==
  LET hc == Call(h, "Save", u) IN
  IF Hit(hc) THEN Fail(hc) ELSE SaveLast([hc EXCEPT !.db[u].att = 0, !.db[u].last = h.now], u)

(* confirm module *)
ConfirmPrevent(h, u) ==
  IF h.db[u].conf THEN HR(h, FALSE) ELSE HR(Redirect(h, "confirmNotOK"), TRUE)

\* confirm.StartConfirmation: new token, unconfirmed, saved, mailed; a token
\* whose mail is lost is stored but known to nobody (id -1)
StartConfirmation(h, u) ==
  LET t  == Fresh(h, "ct")
      hc == Call(h, "Save", u)
  IN  IF Hit(hc) THEN Fail(hc)
      ELSE LET m == Mail(hc, [to |-> {u}, kind |-> "confirm", tok |-> t]) IN
           IF m.sent THEN [Bump(m.h, "ct") EXCEPT !.db[u].conf = FALSE, !.db[u].cTok = t]
           ELSE [m.h EXCEPT !.db[u].conf = FALSE, !.db[u].cTok = -1]

(* remember module *)
RememberAdd(h, u) ==
  LET t  == Fresh(h, "rm")
      hc == Call(h, "AddRememberToken", u)
  IN  IF Hit(hc) THEN Fail(hc)
      ELSE [Bump(hc, "rm") EXCEPT !.rm = @ \cup {[o |-> u, id |-> t]}, !.pc = t]

\* remember.Authenticate, run by the middleware when nobody is logged in.
\* cookie -1: not even well formed (no storage call); -2: well formed, unknown
RememberAuth(h) ==
  LET c == h.rc IN
  IF c = 0 THEN h
  ELSE IF c = -1 THEN [h EXCEPT !.pc = 0]
  ELSE LET hc == Call(h, "UseRememberToken", "-") IN
       IF Hit(hc) /\ ~HitNF(hc) THEN hc                 \* logged; the request goes on anonymously
       ELSE IF HitNF(hc) \/ ~\E t \in h.rm : t.id = c THEN [hc EXCEPT !.pc = 0]
       ELSE LET t  == CHOOSE t \in h.rm : t.id = c
                n  == Fresh(h, "rm")
                h1 == [hc EXCEPT !.rm = @ \ {t}]          \* consumed
                ha == Call(h1, "AddRememberToken", t.o)
            IN  IF Hit(ha) THEN ha                       \* logged; consumed, nothing issued
                ELSE \* the rest of this request already sees the half-authenticated session
                     [Bump(ha, "rm") EXCEPT !.rm = @ \cup {[o |-> t.o, id |-> n]},
                                 !.cu = t.o, !.ps.uid = t.o, !.ps.half = TRUE, !.pc = n,
                                 !.rs.uid = t.o, !.rs.half = TRUE]

(* expire module *)
Expired(s, c, now) == s.lastAct # NEVER /\ now - s.lastAct > Thr(c.expireAfter)

ExpireMW(h, c) ==
  IF h.rs.uid = NONE THEN h
  ELSE IF Expired(h.rs, c, h.now)
       THEN LET h1 == DelS(DelS(DelAllS(h, WL(c)), "uid"), "lastAct")
            IN  [h1 EXCEPT !.rs = [k \in SessKeys |-> IF k \in WL(c) THEN h.rs[k] ELSE EmptySess[k]]]
       ELSE PutS(h, "lastAct", h.now)

-----------------------------------------------------------------------------
(* Event dispatch: handler lists follow load order; an error stops the chain *)

RECURSIVE FireBeforeAuth(_, _, _, _, _)
FireBeforeAuth(hs, h, c, u, handled) ==
  IF hs = <<>> \/ h.abort # NONE THEN HR(h, handled)
  ELSE LET r == IF Head(hs) = "lock" THEN LockUpdate(h, c, u, TRUE) ELSE ConfirmPrevent(h, u)
       IN  FireBeforeAuth(Tail(hs), r.h, c, u, handled \/ r.handled)

BeforeAuth(h, c, u) == FireBeforeAuth(Sub(c, {"lock", "confirm"}), h, c, u, FALSE)

\* Before(EventAuthHijack): totp, sms in load order; each honours "handled"
TotpHijack(h, u) ==
  IF h.db[u].totp = 0 THEN HR(h, FALSE)
  ELSE HR(Redirect(PutS(h, "totpPend", u), "totpValidate"), TRUE)

\* sms2fa.SendCodeToUser; rate limit (10 s) = not a single unit has passed since the last send in this session.
\* The session is written before the sender is called: a code that was not sent
\* is known to nobody (id -1)
SmsSend(h, phone) ==
  IF h.rs.smsLast # NEVER /\ h.now - h.rs.smsLast < 1
  THEN [h |-> h, limited |-> TRUE, failed |-> FALSE]
  ELSE LET t  == Fresh(h, "sc")
           hc == Call(PutS(h, "smsLast", h.now), "SendSMS", "-")
       IN  IF Hit(hc) THEN [h |-> PutS(hc, "smsCode", -1), limited |-> FALSE, failed |-> TRUE]
           ELSE [h |-> [PutS(Bump(hc, "sc"), "smsCode", t) EXCEPT !.sms = @ \cup {[phone |-> phone, code |-> t]},
                             !.scPhone = @ \cup {<<t, phone>>}], limited |-> FALSE, failed |-> FALSE]

SmsHijack(h, u) ==
  IF h.db[u].sms = 0 THEN HR(h, FALSE)
  ELSE LET h1 == PutS(h, "smsPend", u)
           s  == SmsSend(h1, h.db[u].sms)
       IN  IF s.failed THEN HR(Fail(s.h), FALSE) ELSE HR(Redirect(s.h, "smsValidate"), TRUE)

RECURSIVE FireHijack(_, _, _, _)
FireHijack(hs, h, u, handled) ==
  IF hs = <<>> \/ h.abort # NONE THEN HR(h, handled)
  ELSE LET r == IF handled THEN HR(h, FALSE)
                ELSE IF Head(hs) = "totp" THEN TotpHijack(h, u) ELSE SmsHijack(h, u)
       IN  FireHijack(Tail(hs), r.h, u, handled \/ r.handled)

Hijack(h, c, u) == FireHijack(Sub(c, {"totp", "sms"}), h, u, FALSE)

\* After(EventAuth): remember (when asked) and lock's reset in load order, then expire's stamp
\* (expire is set up after the registered modules are initialised)
RECURSIVE FireAfterAuth(_, _, _, _, _)
FireAfterAuth(hs, h, c, u, wantRm) ==
  IF hs = <<>> \/ h.abort # NONE THEN h
  ELSE LET m  == Head(hs)
           h1 == CASE m = "remember" -> IF wantRm THEN RememberAdd(h, u) ELSE h
                   [] m = "lock"     -> LockSuccess(h, u)
                   [] OTHER          -> PutS(h, "lastAct", h.now)
       IN  FireAfterAuth(Tail(hs), h1, c, u, wantRm)

AfterAuth(h, c, u, wantRm) ==
  FireAfterAuth(Sub(c, {"remember", "lock"}) \o (IF Has(c, "expire") THEN <<"expire">> ELSE <<>>), h, c, u, wantRm)

\* After(EventAuthFail): lock counts the failure
AfterAuthFail(h, c, u) ==
  IF Has(c, "lock") THEN LockUpdate(h, c, u, FALSE) ELSE HR(h, FALSE)

\* the shared tail of every interactive login
\* (Before(Auth) -> Before(Hijack) -> session -> After(Auth) -> redirect)
LoginTail(h, c, u, wantRm, delHalf, okLoc) ==
  LET a == BeforeAuth(h, c, u) IN
  IF a.handled \/ a.h.abort # NONE THEN a.h
  ELSE LET j == Hijack(a.h, c, u) IN
       IF j.handled \/ j.h.abort # NONE THEN j.h
       ELSE LET h1 == PutS(j.h, "uid", u)
                h2 == IF delHalf THEN DelS(h1, "half") ELSE h1
                h3 == AfterAuth(h2, c, u, wantRm)
            IN  IF h3.abort # NONE THEN h3 ELSE Redirect(h3, okLoc)

-----------------------------------------------------------------------------
(* Request handlers.  e is the event record. *)

RouteMissing(h) == Respond(h, "notfound", NONE)

\* Storage.Load(pid) as the first thing a handler does with a typed-in pid:
\* [h, found]; any error but "not found" is returned
LoadPid(h, pid) ==
  LET hc == Call(h, "Load", "-") IN
  IF Hit(hc) /\ ~HitNF(hc) THEN [h |-> Fail(hc), found |-> FALSE]
  ELSE [h |-> hc, found |-> ~HitNF(hc) /\ pid \in Pids /\ h.db[pid].ex]

LoginPost(h, c, e) ==
  IF ~Has(c, "auth") THEN RouteMissing(h)
  ELSE LET l == LoadPid(h, e.pid) IN
       IF l.h.abort # NONE THEN l.h
       ELSE IF ~l.found THEN Page(l.h, "login")
       ELSE LET u == e.pid IN
            IF e.pw <= 0 \/ e.pw # h.db[u].pw
            THEN LET f == AfterAuthFail(l.h, c, u) IN
                 IF f.handled \/ f.h.abort # NONE THEN f.h ELSE Page(f.h, "login")
            ELSE LoginTail(l.h, c, u, e.rm, TRUE, IF e.redir # NONE THEN "redir" ELSE "loginOK")

\* logout looks the user up only to log the name: whatever that returns is ignored
\* the shipped router knows GET, POST and DELETE; anything else is answered 405 before any route is looked at
RouterMethods == {"GET", "POST", "DELETE"}
MethodNotAllowed(h) == Respond(h, "method405", NONE)

Logout(h, c, e) ==
  IF e.method \notin RouterMethods THEN MethodNotAllowed(h)
  ELSE IF ~Has(c, "logout") \/ e.method # c.logoutMethod THEN RouteMissing(h)
  ELSE LET h0 == IF CurrentUserID(h) # NONE THEN Call(h, "Load", "-") ELSE h
           h1 == DelAllS(h0, WL(c))
           h2 == DelS(DelS(DelS(h1, "uid"), "half"), "lastAct")
           h3 == [h2 EXCEPT !.pc = 0]
       IN  Redirect(h3, "logoutOK")

RegisterPost(h, c, e) ==
  IF ~Has(c, "register") THEN RouteMissing(h)
  ELSE IF ~e.valid THEN Page(h, "register")
  ELSE LET u  == e.pid
           hh == Call(h, "Hash", "-")
       IN
       IF Hit(hh) THEN Fail(hh)
       ELSE LET hc == Call(hh, "Create", u) IN
       IF Hit(hc) THEN Fail(hc)
       ELSE IF h.db[u].ex THEN Page(hc, "register")
       ELSE LET h1 == [hc EXCEPT !.db[u] = [NoUser EXCEPT !.ex = TRUE, !.pw = e.pw]]
            IN  IF Has(c, "confirm")
                THEN LET h2 == StartConfirmation(h1, u) IN
                     IF h2.abort # NONE THEN h2 ELSE Redirect(h2, "confirmNotOK")
                ELSE Redirect(PutS(h1, "uid", u), "registerOK")

\* e.wf: a rejected token is still well formed enough to reach the storage lookup
ConfirmGet(h, c, e) ==
  IF ~Has(c, "confirm") THEN RouteMissing(h)
  ELSE IF e.tok <= 0 /\ ~e.wf THEN Redirect(h, "confirmNotOK")
  ELSE LET hl == Call(h, "LoadByConfirmSelector", "-") IN
       IF Hit(hl) /\ ~HitNF(hl) THEN Fail(hl)
       ELSE IF HitNF(hl) \/ e.tok <= 0 \/ ~\E u \in Pids : h.db[u].ex /\ h.db[u].cTok = e.tok
       THEN Redirect(hl, "confirmNotOK")
       ELSE LET u  == CHOOSE u \in Pids : h.db[u].ex /\ h.db[u].cTok = e.tok
                hc == Call(hl, "Save", u)
            IN  IF Hit(hc) THEN Fail(hc)
                ELSE Redirect([hc EXCEPT !.db[u].cTok = 0, !.db[u].conf = TRUE], "confirmOK")

RecoverStart(h, c, e) ==
  IF ~Has(c, "recover") THEN RouteMissing(h)
  ELSE IF ~e.valid THEN Page(h, "recoverStart")
  ELSE LET l == LoadPid(h, e.pid) IN
       IF l.h.abort # NONE THEN l.h
       ELSE IF ~l.found THEN Redirect(l.h, "recoverOK")
       ELSE LET u  == e.pid
                t  == Fresh(h, "rt")
                hc == Call(l.h, "Save", u)
            IN  IF Hit(hc) THEN Fail(hc)
                ELSE LET m == Mail(hc, [to |-> {u} \cup Secondary(u), kind |-> "recover", tok |-> t])
                         h1 == IF m.sent
                               THEN [Bump(m.h, "rt") EXCEPT !.db[u].rTok = t, !.db[u].rExp = h.now + Thr(c.recoverTTL)]
                               ELSE [m.h EXCEPT !.db[u].rTok = -1, !.db[u].rExp = h.now + Thr(c.recoverTTL)]
                     IN  Redirect(h1, "recoverOK")

RecoverEnd(h, c, e) ==
  IF ~Has(c, "recover") THEN RouteMissing(h)
  ELSE IF ~e.valid THEN Page(h, "recoverEnd")
  ELSE IF e.tok <= 0 /\ ~e.wf THEN Page(h, "recoverEnd")
  ELSE LET hl == Call(h, "LoadByRecoverSelector", "-") IN
       IF Hit(hl) /\ ~HitNF(hl) THEN Fail(hl)
       ELSE IF HitNF(hl) \/ e.tok <= 0 \/ ~\E u \in Pids : h.db[u].ex /\ h.db[u].rTok = e.tok
       THEN Page(hl, "recoverEnd")
  ELSE LET u == CHOOSE u \in Pids : h.db[u].ex /\ h.db[u].rTok = e.tok IN
       IF h.now > h.db[u].rExp THEN Page(hl, "recoverEnd")
       ELSE LET hh == Call(hl, "Hash", "-") IN
            IF Hit(hh) THEN Fail(hh)
            ELSE LET hc == Call(hh, "Save", u) IN
            IF Hit(hc) THEN Fail(hc)
            ELSE LET h1 == [hc EXCEPT !.db[u].pw = e.pw, !.db[u].rTok = 0, !.db[u].rExp = h.now]
                     \* After(EventRecoverEnd): remember drops the cookie and every token
                     hd == Call([h1 EXCEPT !.pc = 0], "DelRememberTokens", u)
                     h2 == IF ~Has(c, "remember") THEN h1
                           ELSE IF Hit(hd) THEN Fail(hd)
                           ELSE [hd EXCEPT !.rm = {t \in @ : t.o # u}]
                 IN  IF h2.abort # NONE THEN h2
                     ELSE IF c.recoverLogin
                     THEN LoginTail(h2, c, u, FALSE, FALSE, "recoverOK")
                     ELSE Redirect(h2, "recoverOK")


-----------------------------------------------------------------------------
(* authboss.Middleware2 as mounted in front of the otp / 2FA routes and the  *)
(* probe route                                                               *)

Refuse(h, c) ==
  CASE c.mwFail = "404" -> Respond(h, "refuse404", NONE)
    [] c.mwFail = "401" -> Respond(h, "refuse401", NONE)
    [] OTHER -> IF ~h.json THEN Respond(h, "refuseLogin", NONE)
                ELSE LET hc == Call(h, "Render", "-") IN
                     IF Hit(hc) THEN Abort(hc, "silent") ELSE Respond(hc, "refuseLogin", NONE)

\* [ok, uid, h]: the wrapped handler runs iff ok; otherwise h already carries the answer.
\* The user is loaded here and cached in the request context for everything behind
AuthMW(h, c, needFull, need2fa) ==
  LET uid == CurrentUserID(h) IN
  IF (needFull /\ h.rs.half) \/ (need2fa /\ h.rs.twofa = NONE) THEN [ok |-> FALSE, uid |-> NONE, h |-> Refuse(h, c)]
  ELSE IF uid = NONE THEN [ok |-> FALSE, uid |-> NONE, h |-> Refuse(h, c)]
  ELSE LET hc == Call(h, "Load", "-") IN
       IF Hit(hc) /\ ~HitNF(hc) THEN [ok |-> FALSE, uid |-> NONE, h |-> Abort(hc, "mw500")]
       ELSE IF HitNF(hc) \/ uid \notin Pids \/ ~h.db[uid].ex THEN [ok |-> FALSE, uid |-> NONE, h |-> Refuse(hc, c)]
       ELSE [ok |-> TRUE, uid |-> uid, h |-> [hc EXCEPT !.loaded = uid]]

\* who passes the authentication requirement (no effects; used by the property clauses)
AuthOK(h, needFull, need2fa) ==
  LET uid == CurrentUserID(h) IN
  ~((needFull /\ h.rs.half) \/ (need2fa /\ h.rs.twofa = NONE)) /\ uid # NONE /\ uid \in Pids /\ h.db[uid].ex

\* After(EventTwoFactorAdded / Removed): an application handler may answer the request itself
TfaChanged(h, c, page) == IF c.appHandles2FA THEN Redirect(h, "appTfaChanged") ELSE Page(h, page)

\* twofactor.EmailVerify.Wrap
EmailWrapBlocks(h, c) == c.emailAuth /\ ~h.rs.tfaAuthed
EmailWrapRedirect(h, kind) == RedirectVia(h, IF kind = "totp" THEN "totpEmailVerify" ELSE "smsEmailVerify", "silent")

(* otp module *)

OtpLoginPost(h, c, e) ==
  IF ~Has(c, "otp") THEN RouteMissing(h)
  ELSE LET l == LoadPid(h, e.pid) IN
       IF l.h.abort # NONE THEN l.h
       ELSE IF ~l.found THEN Page(l.h, "otpLogin")
       ELSE LET u == e.pid IN
            IF e.tok <= 0 \/ e.tok \notin h.db[u].otps
            THEN LET f == AfterAuthFail(l.h, c, u) IN
                 IF f.handled \/ f.h.abort # NONE THEN f.h ELSE Page(f.h, "otpLogin")
            ELSE LET hc == Call(l.h, "Save", u) IN       \* consumed and saved first
                 IF Hit(hc) THEN Fail(hc)
                 ELSE LoginTail([hc EXCEPT !.db[u].otps = @ \ {e.tok}], c, u, e.rm, TRUE,
                                IF e.redir # NONE THEN "redir" ELSE "loginOK")

\* a password the page never showed is stored but known to nobody (id -1)
OtpAdd(h, c, e) ==
  IF ~Has(c, "otp") THEN RouteMissing(h)
  ELSE LET m == AuthMW(h, c, FALSE, FALSE) IN
       IF ~m.ok THEN m.h
       ELSE IF Cardinality(h.db[m.uid].otps) >= 5 THEN Page(m.h, "otpAdd")
       ELSE LET t  == Fresh(h, "otp")
                hc == Call(m.h, "Save", m.uid)
            IN  IF Hit(hc) THEN Fail(hc)
                ELSE LET hr == Call(hc, "Render", "-") IN
                     IF Hit(hr) THEN Fail([hr EXCEPT !.db[m.uid].otps = @ \cup {-1}])
                     ELSE Respond([Bump(hr, "otp") EXCEPT !.db[m.uid].otps = @ \cup {t}, !.shown = {<<"otp", t>>}],
                                  "page", "otpAdd")

OtpClear(h, c, e) ==
  IF ~Has(c, "otp") THEN RouteMissing(h)
  ELSE LET m == AuthMW(h, c, FALSE, FALSE) IN
       IF ~m.ok THEN m.h
       ELSE LET hc == Call(m.h, "Save", m.uid) IN
            IF Hit(hc) THEN Fail(hc) ELSE Page([hc EXCEPT !.db[m.uid].otps = {}], "otpAdd")

(* oauth2 module *)

OProviders == {"pa", "pb"}
OPid(prov, uid) == "o_" \o prov \o "_" \o uid

OAuthStart(h, c, e) ==
  IF ~Has(c, "oauth2") \/ e.prov \notin OProviders THEN RouteMissing(h)
  ELSE LET t  == Fresh(h, "os")
           h1 == PutS(Bump(h, "os"), "oState", t)
           hasQ == e.rm \/ e.redir # NONE
           h2 == [h1 EXCEPT !.ps.oHas = hasQ, !.ps.oRm = hasQ /\ e.rm,
                            !.ps.oRedir = IF hasQ THEN e.redir ELSE NONE]
       IN  Redirect(h2, "provider")

OAuthCallback(h, c, e) ==
  IF ~Has(c, "oauth2") \/ e.prov \notin OProviders THEN RouteMissing(h)
  ELSE IF h.rs.oState = 0 THEN Fail(h)
  ELSE IF e.tok <= 0 \/ e.tok # h.rs.oState THEN Fail(h)
  ELSE LET h1 == [h EXCEPT !.ps.oState = 0, !.ps.oHas = FALSE, !.ps.oRm = FALSE, !.ps.oRedir = NONE] IN
       IF e.outcome = "error" THEN Redirect(h1, "oauth2NotOK")
       ELSE IF e.outcome = "exchangeFail" THEN Fail(h1)
       ELSE LET u  == OPid(e.prov, e.outcome)
                hf == Call(h1, "FindUserDetails", "-")
                hn == Call(hf, "NewFromOAuth2", "-")
                hs == Call(hn, "SaveOAuth2", u)
                h2 == IF h1.db[u].ex THEN hs
                      ELSE [hs EXCEPT !.db[u] = [NoUser EXCEPT !.ex = TRUE, !.conf = TRUE]]
                a  == IF Has(c, "lock") THEN LockUpdate(h2, c, u, TRUE) ELSE HR(h2, FALSE)
            IN  IF Hit(hf) THEN Fail(hf) ELSE IF Hit(hn) THEN Fail(hn) ELSE IF Hit(hs) THEN Fail(hs)
                ELSE IF a.handled \/ a.h.abort # NONE THEN a.h
                ELSE LET h3 == DelS(PutS(a.h, "uid", u), "half")
                         h4 == IF Has(c, "remember") /\ h.rs.oHas /\ h.rs.oRm THEN RememberAdd(h3, u) ELSE h3
                     IN  IF h4.abort # NONE THEN h4
                         ELSE Redirect(h4, IF h.rs.oHas /\ h.rs.oRedir # NONE THEN "redir" ELSE "oauth2OK")

(* two-factor: shared pieces *)

\* fresh codes; shown = FALSE: the page that would have shown them was never
\* produced (an application handler answered, or the renderer failed): stored, known to nobody
StoreRecoveryCodes(h, u, shown) ==
  IF shown THEN LET g == Fresh(h, "rc") IN
                [Bump(h, "rc") EXCEPT !.db[u].rcg = g, !.db[u].rcLeft = 1..10, !.shown = @ \cup {<<"rc", g>>}]
  ELSE [h EXCEPT !.db[u].rcg = -1, !.db[u].rcLeft = {-1}]

RcMatches(h, u, e) == e.rc >= 1 /\ e.g = h.db[u].rcg /\ e.rc \in h.db[u].rcLeft

\* the user a validate-style handler acts for: the logged-in one, else the pending one
\* (no effects; used by the property clauses)
ValidateUser(h, pend) ==
  LET cur == CurrentUserID(h) IN
  IF cur # NONE /\ cur \in Pids /\ h.db[cur].ex THEN cur
  ELSE IF pend # NONE /\ pend \in Pids /\ h.db[pend].ex THEN pend
  ELSE NONE

\* the same with its storage calls: CurrentUser, and when that finds nobody the pending pid
\* [h, u]
LoadValidateUser(h, pend) ==
  LET cur == CurrentUserID(h)
      tryPend(hx) ==
        IF pend = NONE THEN [h |-> Fail(hx), u |-> NONE]
        ELSE LET hp == Call(hx, "Load", "-") IN
             IF Hit(hp) \/ pend \notin Pids \/ ~h.db[pend].ex THEN [h |-> Fail(hp), u |-> NONE]
             ELSE [h |-> hp, u |-> pend]
  IN  IF h.loaded # NONE THEN [h |-> h, u |-> h.loaded]
      ELSE IF cur = NONE THEN tryPend(h)
      ELSE LET hc == Call(h, "Load", "-") IN
           IF Hit(hc) /\ ~HitNF(hc) THEN [h |-> Fail(hc), u |-> NONE]
           ELSE IF HitNF(hc) \/ cur \notin Pids \/ ~h.db[cur].ex THEN tryPend(hc)
           ELSE [h |-> hc, u |-> cur]

TotpEnc(e) == IF e.code >= 1 /\ e.tok >= 1 THEN e.tok * 10 + e.code ELSE IF e.code = 0 THEN 0 ELSE -1

\* totp2fa.validate: [h, status] with status in "notEnabled" | "bad" | "ok"
TotpCheck(h, c, u, e) ==
  IF h.db[u].totp = 0 THEN [h |-> h, status |-> "notEnabled"]
  ELSE IF e.rc # 0 THEN
         IF RcMatches(h, u, e)
         THEN LET hc == Call(h, "Save", u) IN                               \* saved at once
              IF Hit(hc) THEN [h |-> Fail(hc), status |-> "bad"]
              ELSE [h |-> [hc EXCEPT !.db[u].rcLeft = @ \ {e.rc}], status |-> "ok"]
         ELSE [h |-> h, status |-> "bad"]
  ELSE LET enc == TotpEnc(e)
           rep == c.totpOneTime /\ enc = h.db[u].totpLast
           \* the in-memory user carries the new last code; it reaches storage
           \* with whichever Save follows (lock's, the handler's)
           hm  == IF c.totpOneTime /\ ~rep THEN [h EXCEPT !.pendLast = enc] ELSE h
       IN  IF rep THEN [h |-> h, status |-> "bad"]
           ELSE IF e.code >= 1 /\ e.tok = h.db[u].totp THEN [h |-> hm, status |-> "ok"]
           ELSE [h |-> hm, status |-> "bad"]

\* completing the second step of a login
TwoFALogin(h, c, u, kind, e) ==
  LET a == BeforeAuth(h, c, u) IN
  IF a.handled \/ a.h.abort # NONE THEN a.h
  ELSE LET h1 == PutS(PutS(a.h, "uid", u), "twofa", kind)
           h2 == DelS(h1, "half")
           h3 == IF kind = "totp" THEN DelS(DelS(h2, "totpPend"), "totpSetup")
                 ELSE DelS(DelS(h2, "smsPend"), "smsCode")
           h4 == AfterAuth(h3, c, u, FALSE)
       IN  IF h4.abort # NONE THEN h4 ELSE Redirect(h4, IF e.redir # NONE THEN "redir" ELSE "loginOK")

(* totp *)

TotpSetup(h, c, e) ==
  IF ~Has(c, "totp") THEN RouteMissing(h)
  ELSE LET m == AuthMW(h, c, TRUE, FALSE) IN
       IF ~m.ok THEN m.h
       ELSE IF EmailWrapBlocks(h, c) THEN EmailWrapRedirect(m.h, "totp")
       ELSE IF e.act = "TotpSetupGet" THEN Page(DelS(m.h, "totpSetup"), "totpSetup")
       ELSE LET t == Fresh(h, "ts") IN Redirect(PutS(Bump(m.h, "ts"), "totpSetup", t), "totpConfirm")

TotpConfirm(h, c, e) ==
  IF ~Has(c, "totp") THEN RouteMissing(h)
  ELSE LET m == AuthMW(h, c, TRUE, FALSE) IN
       IF ~m.ok THEN m.h
       ELSE IF EmailWrapBlocks(h, c) THEN EmailWrapRedirect(m.h, "totp")
       ELSE IF h.rs.totpSetup = 0 THEN Fail(m.h)
       ELSE IF ~(e.code >= 1 /\ e.tok = h.rs.totpSetup) THEN Page(m.h, "totpConfirm")
       ELSE LET u  == m.uid
                hc == Call(m.h, "Save", u)
                h2 == [hc EXCEPT !.db[u].totp = h.rs.totpSetup,
                                 !.db[u].totpLast = IF c.totpOneTime THEN TotpEnc(e) ELSE @]
                h3 == DelS(DelS(h2, "totpSetup"), "tfaAuthed")
                hr == Call(h3, "Render", "-")
            IN  IF Hit(hc) THEN Fail(hc)
                ELSE IF c.appHandles2FA THEN Redirect(StoreRecoveryCodes(h3, u, FALSE), "appTfaChanged")
                ELSE IF Hit(hr) THEN Fail(StoreRecoveryCodes(hr, u, FALSE))
                ELSE Respond(StoreRecoveryCodes(hr, u, TRUE), "page", "totpConfirmOK")

TotpRemove(h, c, e) ==
  IF ~Has(c, "totp") THEN RouteMissing(h)
  ELSE LET m == AuthMW(h, c, TRUE, FALSE) IN
       IF ~m.ok THEN m.h
       ELSE LET u == m.uid
                v == TotpCheck(m.h, c, u, e)
            IN  IF v.h.abort # NONE THEN v.h
                ELSE IF v.status # "ok" THEN Page(v.h, "totpRemove")
                ELSE LET hc == Call(DelS(v.h, "twofa"), "Save", u) IN
                     IF Hit(hc) THEN Fail(hc)
                     ELSE TfaChanged([SaveLast(hc, u) EXCEPT !.db[u].totp = 0], c, "totpRemoveOK")

TotpValidate(h, c, e) ==
  IF ~Has(c, "totp") THEN RouteMissing(h)
  ELSE LET l == LoadValidateUser(h, h.rs.totpPend)
           u == l.u
       IN
       IF u = NONE THEN l.h
       ELSE LET v == TotpCheck(l.h, c, u, e) IN
            IF v.h.abort # NONE THEN v.h
            ELSE IF v.status = "notEnabled" THEN Page(v.h, "totpValidate")
            ELSE IF v.status = "bad"
            THEN LET f == AfterAuthFail(v.h, c, u) IN
                 IF f.handled \/ f.h.abort # NONE THEN f.h ELSE Page(f.h, "totpValidate")
            ELSE \* with one-time codes the user object (its new last code) is saved first
                 LET hc == Call(v.h, "Save", u) IN
                 IF ~c.totpOneTime THEN TwoFALogin(v.h, c, u, "totp", e)
                 ELSE IF Hit(hc) THEN Fail(hc)
                 ELSE TwoFALogin(SaveLast(hc, u), c, u, "totp", e)

(* sms *)

SmsSetup(h, c, e) ==
  IF ~Has(c, "sms") THEN RouteMissing(h)
  ELSE LET m == AuthMW(h, c, TRUE, FALSE) IN
       IF ~m.ok THEN m.h
       ELSE IF EmailWrapBlocks(h, c) THEN EmailWrapRedirect(m.h, "sms")
       ELSE IF e.act = "SmsSetupGet" THEN Page(DelS(DelS(m.h, "smsCode"), "smsNum"), "smsSetup")
       ELSE IF e.phone <= 0 THEN Page(m.h, "smsSetup")
       ELSE LET s == SmsSend(PutS(m.h, "smsNum", e.phone), e.phone) IN
            IF s.limited \/ s.failed THEN Fail(s.h) ELSE Redirect(s.h, "smsConfirm")

\* which: "confirm" | "remove" | "validate"
SmsPost(h, c, e, which) ==
  IF ~Has(c, "sms") THEN RouteMissing(h)
  ELSE LET m == IF which = "validate" THEN [ok |-> TRUE, uid |-> NONE, h |-> h] ELSE AuthMW(h, c, TRUE, FALSE) IN
       IF ~m.ok THEN m.h
       ELSE IF which = "confirm" /\ EmailWrapBlocks(h, c) THEN EmailWrapRedirect(m.h, "sms")
       ELSE LET l == LoadValidateUser(m.h, h.rs.smsPend)
                u == l.u
                h0 == l.h
                page == CASE which = "confirm" -> "smsConfirm" [] which = "remove" -> "smsRemove" [] OTHER -> "smsValidate"
                rcGiven == which # "confirm" /\ e.rc # 0
            IN
            IF u = NONE THEN h0
            ELSE IF ~rcGiven /\ e.code = 0 THEN
                   \* (re)send a code
                   LET phone == IF which = "confirm" THEN h.rs.smsNum ELSE h.db[u].sms IN
                   IF phone = 0 THEN Fail(h0)
                   ELSE LET s == SmsSend(h0, phone) IN IF s.failed THEN Fail(s.h) ELSE Page(s.h, page)
            ELSE IF ~rcGiven /\ h.rs.smsCode = 0 THEN Fail(h0)
            ELSE LET target == IF which = "confirm" THEN h.rs.smsNum ELSE h.db[u].sms
                     verified == IF rcGiven THEN RcMatches(h, u, e)
                                 ELSE e.code >= 1 /\ e.code = h.rs.smsCode
                                      /\ <<e.code, target>> \in h.scPhone   \* sent to the factor being proven
                     hrc == Call(h0, "Save", u)
                     h1 == IF rcGiven /\ verified
                           THEN (IF Hit(hrc) THEN Fail(hrc) ELSE [hrc EXCEPT !.db[u].rcLeft = @ \ {e.rc}])
                           ELSE h0
                 IN
                 IF h1.abort # NONE THEN h1
                 ELSE IF ~verified
                 THEN LET f == AfterAuthFail(h1, c, u) IN
                      IF f.handled \/ f.h.abort # NONE THEN f.h ELSE Page(f.h, page)
                 ELSE CASE which = "confirm" ->
                             IF h.rs.smsNum = 0 THEN Fail(h1)
                             ELSE LET hc == Call(h1, "Save", u)
                                      h2 == [hc EXCEPT !.db[u].sms = h.rs.smsNum]
                                      h3 == DelS(DelS(DelS(h2, "tfaAuthed"), "smsCode"), "smsNum")
                                      hr == Call(h3, "Render", "-")
                                  IN  IF Hit(hc) THEN Fail(hc)
                                      ELSE IF c.appHandles2FA THEN Redirect(StoreRecoveryCodes(h3, u, FALSE), "appTfaChanged")
                                      ELSE IF Hit(hr) THEN Fail(StoreRecoveryCodes(hr, u, FALSE))
                                      ELSE Respond(StoreRecoveryCodes(hr, u, TRUE), "page", "smsConfirmOK")
                        [] which = "remove" ->
                             LET hc == Call(h1, "Save", u) IN
                             IF Hit(hc) THEN Fail(hc)
                             ELSE TfaChanged(DelS([hc EXCEPT !.db[u].sms = 0], "twofa"), c, "smsRemoveOK")
                        [] OTHER -> TwoFALogin(h1, c, u, "sms", e)

(* recovery codes, e-mail verification *)

RecoveryRegen(h, c, e) ==
  IF ~Has(c, "recovery") THEN RouteMissing(h)
  ELSE LET m == AuthMW(h, c, TRUE, FALSE) IN
       IF ~m.ok THEN m.h
       ELSE LET hc == Call(m.h, "Save", m.uid)
                hr == Call(hc, "Render", "-")
            IN  IF Hit(hc) THEN Fail(hc)
                ELSE IF Hit(hr) THEN Fail(StoreRecoveryCodes(hr, m.uid, FALSE))
                ELSE Respond(StoreRecoveryCodes(hr, m.uid, TRUE), "page", "recovery2fa")

EmailVerifyStart(h, c, e) ==
  IF ~c.emailAuth \/ ~Has(c, e.kind) \/ e.kind \notin {"totp", "sms"} THEN RouteMissing(h)
  ELSE LET m == AuthMW(h, c, TRUE, FALSE) IN
       IF ~m.ok THEN m.h
       ELSE LET t == Fresh(h, "tt")
                ml == Mail(m.h, [to |-> {m.uid}, kind |-> "tfaverify", tok |-> t])
            IN  IF ml.sent THEN Redirect(PutS(Bump(ml.h, "tt"), "tfaTok", t), "tfaEmailNotOK")
                ELSE Redirect(PutS(ml.h, "tfaTok", -1), "tfaEmailNotOK")

EmailVerifyEnd(h, c, e) ==
  IF ~c.emailAuth \/ ~Has(c, e.kind) \/ e.kind \notin {"totp", "sms"} THEN RouteMissing(h)
  ELSE LET m == AuthMW(h, c, TRUE, FALSE) IN
       IF ~m.ok THEN m.h
       ELSE IF h.rs.tfaTok = 0 \/ e.tok <= 0 \/ e.tok # h.rs.tfaTok THEN Redirect(m.h, "tfaEmailNotOK")
       ELSE Redirect(PutS(DelS(m.h, "tfaTok"), "tfaAuthed", TRUE), IF e.kind = "totp" THEN "totpSetup" ELSE "smsSetup")

\* the GET pages (forms and status pages). e.k names the route; they change nothing by themselves
\* (the global middlewares in front still act), but each sits behind the same guards as its POST twin
GetPage(h, c, e) ==
  LET k == e.k
      open(mod, page) == IF Has(c, mod) THEN Page(h, page) ELSE RouteMissing(h)
      guarded(mod, wrapKind, page, needSetup) ==
        IF ~Has(c, mod) THEN RouteMissing(h)
        ELSE LET m == AuthMW(h, c, TRUE, FALSE) IN
             IF ~m.ok THEN m.h
             ELSE IF wrapKind # NONE /\ EmailWrapBlocks(h, c) THEN EmailWrapRedirect(m.h, wrapKind)
             ELSE IF needSetup /\ h.rs.totpSetup = 0 THEN Fail(m.h)
             ELSE Page(m.h, page)
  IN
  CASE k = "login" -> open("auth", "login")
    [] k = "register" -> open("register", "register")
    [] k = "recover" -> open("recover", "recoverStart")
    [] k = "recoverEnd" -> IF ~Has(c, "recover") THEN RouteMissing(h) ELSE IF c.json THEN Fail(h) ELSE Page(h, "recoverEnd")
    [] k = "otpLogin" -> open("otp", "otpLogin")
    [] k \in {"otpAdd", "otpClear"} ->
         IF ~Has(c, "otp") THEN RouteMissing(h)
         ELSE LET m == AuthMW(h, c, FALSE, FALSE) IN IF ~m.ok THEN m.h ELSE Page(m.h, k)
    [] k = "totpConfirm" -> guarded("totp", "totp", "totpConfirm", TRUE)
    [] k = "totpRemove" -> guarded("totp", NONE, "totpRemove", FALSE)
    [] k = "totpValidate" -> open("totp", "totpValidate")
    [] k = "smsConfirm" -> guarded("sms", "sms", "smsConfirm", FALSE)
    [] k = "smsRemove" -> guarded("sms", NONE, "smsRemove", FALSE)
    [] k = "smsValidate" -> open("sms", "smsValidate")
    [] k = "recoveryRegen" -> guarded("recovery", NONE, "recovery2fa", FALSE)
    [] k \in {"totpEmailVerify", "smsEmailVerify"} ->
         LET kind == IF k = "totpEmailVerify" THEN "totp" ELSE "sms" IN
         IF ~c.emailAuth \/ ~Has(c, kind) THEN RouteMissing(h) ELSE guarded(kind, NONE, "tfaVerify", FALSE)
    [] OTHER -> RouteMissing(h)

GetKeys == {"login", "register", "recover", "recoverEnd", "otpLogin", "otpAdd", "otpClear", "totpConfirm", "totpRemove",
            "totpValidate", "smsConfirm", "smsRemove", "smsValidate", "recoveryRegen", "totpEmailVerify", "smsEmailVerify"}

Seen(h, uid) == [Respond(h, "ok", NONE) EXCEPT !.ran = TRUE, !.seenUser = uid,
                   !.seenKeys = {k \in SessKeys \ {"oRm", "oRedir"} : h.rs[k] # EmptySess[k]}]

\* lock.Middleware -> confirm.Middleware used on their own: they load the session user themselves
\* and, as documented, panic when there is none to load (or loading fails)
BareProbe(h, c, e) ==
  LET uid == CurrentUserID(h)
      known == uid # NONE /\ uid \in Pids /\ h.db[uid].ex
      hc == Call(h, "Load", "-")
  IN  \* (unguarded: the application handler looks the user up itself, and sees nobody if that fails)
      IF ~Has(c, "lock") /\ ~Has(c, "confirm")
      THEN (IF uid = NONE THEN Seen(h, NONE) ELSE Seen(hc, IF known /\ ~Hit(hc) THEN uid ELSE NONE))
      ELSE IF uid = NONE THEN Abort(h, "panic")
      ELSE IF Hit(hc) \/ ~known THEN Abort(hc, "panic")
      ELSE IF Has(c, "lock") /\ Locked(h.db[uid], h.now) THEN RedirectVia(hc, "lockNotOK", "silent")
      ELSE IF Has(c, "confirm") /\ ~h.db[uid].conf THEN RedirectVia(hc, "confirmNotOK", "silent")
      ELSE Seen(hc, uid)

\* application route behind authboss.Middleware2 -> lock.Middleware -> confirm.Middleware
Probe(h, c, e) ==
  IF e.k = "bare" THEN BareProbe(h, c, e) ELSE
  LET m == AuthMW(h, c, c.mwReqs \in {1, 3}, c.mwReqs \in {2, 3}) IN
  IF ~m.ok THEN m.h
  ELSE IF Has(c, "lock") /\ Locked(h.db[m.uid], h.now) THEN RedirectVia(m.h, "lockNotOK", "silent")
  ELSE IF Has(c, "confirm") /\ ~h.db[m.uid].conf THEN RedirectVia(m.h, "confirmNotOK", "silent")
  ELSE Seen(m.h, m.uid)

Dispatch(h, c, e) ==
  CASE e.act = "LoginPost"    -> LoginPost(h, c, e)
    [] e.act = "Logout"       -> Logout(h, c, e)
    [] e.act = "RegisterPost" -> RegisterPost(h, c, e)
    [] e.act = "ConfirmGet"   -> ConfirmGet(h, c, e)
    [] e.act = "RecoverStart" -> RecoverStart(h, c, e)
    [] e.act = "RecoverEnd"   -> RecoverEnd(h, c, e)
    [] e.act = "Probe"        -> Probe(h, c, e)
    [] e.act = "OtpLoginPost" -> OtpLoginPost(h, c, e)
    [] e.act = "OtpAdd"       -> OtpAdd(h, c, e)
    [] e.act = "OtpClear"     -> OtpClear(h, c, e)
    [] e.act = "OAuthStart"   -> OAuthStart(h, c, e)
    [] e.act = "OAuthCallback" -> OAuthCallback(h, c, e)
    [] e.act \in {"TotpSetup", "TotpSetupGet"} -> TotpSetup(h, c, e)
    [] e.act = "TotpConfirm"  -> TotpConfirm(h, c, e)
    [] e.act = "TotpRemove"   -> TotpRemove(h, c, e)
    [] e.act = "TotpValidate" -> TotpValidate(h, c, e)
    [] e.act \in {"SmsSetup", "SmsSetupGet"} -> SmsSetup(h, c, e)
    [] e.act = "SmsConfirm"   -> SmsPost(h, c, e, "confirm")
    [] e.act = "SmsRemove"    -> SmsPost(h, c, e, "remove")
    [] e.act = "SmsValidate"  -> SmsPost(h, c, e, "validate")
    [] e.act = "RecoveryRegen" -> RecoveryRegen(h, c, e)
    [] e.act = "EmailVerifyStart" -> EmailVerifyStart(h, c, e)
    [] e.act = "EmailVerifyEnd" -> EmailVerifyEnd(h, c, e)
    [] e.act = "Get"          -> GetPage(h, c, e)
    [] e.act = "BadMethod"    -> MethodNotAllowed(h)      \* HEAD, PUT, PATCH, OPTIONS ... on any route (e.k)

RequestActs == {"LoginPost", "Logout", "RegisterPost", "ConfirmGet", "RecoverStart",
                "RecoverEnd", "Probe", "OtpLoginPost", "OtpAdd", "OtpClear", "OAuthStart",
                "OAuthCallback", "TotpSetup", "TotpSetupGet", "TotpConfirm", "TotpRemove",
                "TotpValidate", "SmsSetup", "SmsSetupGet", "SmsConfirm", "SmsRemove",
                "SmsValidate", "RecoveryRegen", "EmailVerifyStart", "EmailVerifyEnd", "Get", "BadMethod"}

\* global middleware chain in front of every route
Prelude(S, c, e) ==
  LET h0 == Ctx0(S, c, e)
      h1 == IF Has(c, "remember") /\ h0.rs.uid = NONE THEN RememberAuth(h0) ELSE h0
      h2 == IF Has(c, "expire") THEN ExpireMW(h1, c) ELSE h1
  IN  h2

Request(S, c, e) ==
  LET h  == Final(Dispatch(Prelude(S, c, e), c, e))
      \* a handler error: the shipped error handler only logs (nothing is
      \* flushed, implicit empty 200); the alternative writes a 500.  A request
      \* that ends without anything written is "errorSilent" too.
      cls == IF h.class # "none" THEN h.class
             ELSE CASE h.abort = "panic" -> "panic"
                    [] h.abort = "mw500" -> "error500"
                    [] h.abort = "err" /\ c.errWrites -> "error500"
                    [] OTHER -> "errorSilent"
      flush == cls \notin {"errorSilent", "panic"}
  IN  [st |-> [S EXCEPT !.db = h.db, !.rm = h.rm, !.iss = h.iss, !.scPhone = h.scPhone,
                        !.sess[e.b] = IF flush THEN h.ps ELSE @,
                        !.cookie[e.b] = IF flush THEN h.pc ELSE @],
       resp |-> [class |-> cls, loc |-> h.loc, ran |-> h.ran,
                 seenUser |-> h.seenUser, seenKeys |-> h.seenKeys,
                 mails |-> h.mails, sms |-> h.sms, shown |-> h.shown, leaks |-> {}, calls |-> h.calls,
                 faultHit |-> h.fat >= 1 /\ Len(h.calls) >= h.fat]]

-----------------------------------------------------------------------------
(* Environment events *)

Env(S, c, e) ==
  LET S1 ==
    IF e.act \in {"AdminLock", "AdminUnlock", "RestartConfirm", "UpdatePassword"} /\ ~S.db[e.pid].ex THEN S ELSE
    CASE e.act = "Tick" -> [S EXCEPT !.now = @ + G * e.d]      \* whole ticks
      [] e.act = "Tock" -> [S EXCEPT !.now = @ + e.d]          \* single units
      [] e.act = "AdminLock" -> [S EXCEPT !.db[e.pid].lockedUntil = S.now + Thr(c.lockDuration)]
      [] e.act = "AdminUnlock" ->
           [S EXCEPT !.db[e.pid].att = 0, !.db[e.pid].last = NEVER, !.db[e.pid].lockedUntil = NEVER]
      [] e.act = "RestartConfirm" ->
           LET t == S.iss["ct"] + 1 IN
           [S EXCEPT !.db[e.pid].conf = FALSE, !.db[e.pid].cTok = t, !.iss["ct"] = t]
      [] e.act = "UpdatePassword" ->
           [S EXCEPT !.db[e.pid].pw = e.pw, !.rm = {t \in @ : t.o # e.pid}]
      [] e.act = "StealCookie" -> [S EXCEPT !.cookie[e.k] = S.cookie[e.b]]
      [] e.act = "DropSession" -> [S EXCEPT !.sess[e.b] = EmptySess]
      [] e.act = "JunkCookie" -> [S EXCEPT !.cookie[e.b] = IF e.wf THEN -2 ELSE -1]
      [] e.act = "AppKey" -> [S EXCEPT !.sess[e.b][e.k] = TRUE]
  IN [st |-> S1,
      resp |-> [R0 EXCEPT !.mails = IF e.act = "RestartConfirm" /\ S.db[e.pid].ex
                                    THEN {[to |-> {e.pid}, kind |-> "confirm", tok |-> S1.iss["ct"]]}
                                    ELSE {}]]

EnvActs == {"Tick", "Tock", "AdminLock", "AdminUnlock", "RestartConfirm", "UpdatePassword",
            "StealCookie", "DropSession", "JunkCookie", "AppKey"}

\* the secrets that are live (usable) in a state; whatever leaves this set is
\* dead for good (consumed, superseded, cleared, revoked) and recorded in `spent`
Live(S) ==
  UNION { {<<"otp", t>> : t \in S.db[u].otps} \cup {<<"rc", S.db[u].rcg * 100 + i>> : i \in S.db[u].rcLeft}
          \cup (IF S.db[u].cTok >= 1 THEN {<<"ct", S.db[u].cTok>>} ELSE {})
          \cup (IF S.db[u].rTok >= 1 THEN {<<"rt", S.db[u].rTok>>} ELSE {}) : u \in Pids }
  \cup {<<"rm", t.id>> : t \in S.rm}
  \cup UNION { (IF S.sess[b].smsCode >= 1 THEN {<<"sc", S.sess[b].smsCode>>} ELSE {})
               \cup (IF S.sess[b].oState >= 1 THEN {<<"os", S.sess[b].oState>>} ELSE {})
               \cup (IF S.sess[b].tfaTok >= 1 THEN {<<"tt", S.sess[b].tfaTok>>} ELSE {}) : b \in Browsers }

\* (negative ids stand for stored secrets nobody was ever shown; they are not individuals)
Known(X) == {x \in X : x[2] >= 1}

Apply(S, c, e) ==
  LET r == IF e.act \in EnvActs THEN Env(S, c, e) ELSE Request(S, c, e)
  IN  [r EXCEPT !.st.spent = S.spent \cup Known(Live(S) \ Live(r.st))]

=============================================================================
