------------------------------ MODULE Authboss ------------------------------
(***************************************************************************)
(* Request-level transition system of volatiletech/authboss as assembled   *)
(* by the harness (real router, body reader, responder, redirector, error  *)
(* handler, client-state writer, every module).                            *)
(*                                                                         *)
(* One step = one request served to completion (or one environment event). *)
(* The whole step semantics is the pure operator Apply(S, c, e): state S,   *)
(* configuration c, event e  |->  [st, resp].  Handlers are written in the *)
(* order the Go code evaluates guards, fires events and queues session     *)
(* changes; queued session/cookie changes reach the stores only if the     *)
(* handler writes a response (ClientStateResponseWriter semantics).        *)
(***************************************************************************)
EXTENDS Integers, Sequences, FiniteSets, TLC

CONSTANTS Pids,      \* account identifiers (strings)
          Browsers   \* browser ids (strings)

NONE  == "none"
NEVER == -1000       \* "no instant" (zero time.Time / absent stamp)
NRC   == 3           \* recovery codes per generation tracked abstractly

VARIABLES st, cfg, resp
vars == <<st, cfg, resp>>

-----------------------------------------------------------------------------
(* Shapes *)

NoUser == [ex |-> FALSE, pw |-> 0, conf |-> FALSE, cTok |-> 0, rTok |-> 0, rExp |-> NEVER,
           att |-> 0, last |-> NEVER, lockedUntil |-> NEVER,
           otps |-> {}, rcg |-> 0, rcLeft |-> {}, totp |-> 0, totpLast |-> 0, sms |-> 0,
           arb |-> {}]

EmptySess == [uid |-> NONE, half |-> FALSE, twofa |-> NONE,
              totpPend |-> NONE, smsPend |-> NONE, smsCode |-> 0, smsLast |-> NEVER,
              totpSetup |-> 0, smsNum |-> 0,
              oState |-> 0, oHas |-> FALSE, oRm |-> FALSE, oRedir |-> NONE,
              tfaTok |-> 0, tfaAuthed |-> FALSE,
              lastAct |-> NEVER, app1 |-> FALSE, app2 |-> FALSE]

SessKeys == DOMAIN EmptySess

Kinds == {"ct", "rt", "rm", "otp", "rc", "sc", "os", "tt", "ts"}

InitState(dbInit) ==
  [now |-> 0, db |-> dbInit, rm |-> {},
   sess |-> [b \in Browsers |-> EmptySess], cookie |-> [b \in Browsers |-> 0],
   iss |-> [k \in Kinds |-> 0],
   scPhone |-> {},       \* ghost: <<sms code id, phone id it was sent to>>
   spent |-> {}]         \* ghost: <<kind, id>> of every secret that has ever stopped being live

\* a step/event record: every field always present
E0 == [act |-> "none", b |-> NONE, pid |-> NONE, pw |-> 0, tok |-> 0, rm |-> FALSE,
       valid |-> TRUE, d |-> 0, method |-> NONE, code |-> 0, rc |-> 0, g |-> 0, kind |-> NONE,
       prov |-> NONE, outcome |-> NONE, phone |-> 0, redir |-> NONE, k |-> NONE]

R0 == [class |-> "none", loc |-> NONE, ran |-> FALSE, seenUser |-> NONE, seenKeys |-> {},
       mails |-> {}, sms |-> {}, shown |-> {}, leaks |-> {}, calls |-> <<>>]

\* declared secondary e-mail addresses (recovery mail also goes there); the
\* harness seeds u2 with one
Secondary(u) == IF u = "u2" THEN {"u2s"} ELSE {}

-----------------------------------------------------------------------------
(* Configuration helpers *)

Mods(c)   == {c.modules[i] : i \in 1..Len(c.modules)}
Has(c, m) == m \in Mods(c)
Sub(c, S) == SelectSeq(c.modules, LAMBDA m : m \in S)
WL(c)     == {c.whitelist[i] : i \in 1..Len(c.whitelist)}

Locked(u, now) == u.lockedUntil >= now

-----------------------------------------------------------------------------
(* Handler context: the working copy a request operates on *)

Ctx0(S, b) ==
  [db |-> S.db, rm |-> S.rm, iss |-> S.iss, now |-> S.now, b |-> b, scPhone |-> S.scPhone,
   rs |-> S.sess[b],      \* session as read at request start (stable reads)
   rc |-> S.cookie[b],    \* cookie as read at request start
   ps |-> S.sess[b],      \* session with queued changes applied
   pc |-> S.cookie[b],    \* cookie with queued changes applied
   cu |-> NONE,           \* pid placed in the request context
   class |-> "none", loc |-> NONE, ran |-> FALSE, seenUser |-> NONE, seenKeys |-> {},
   mails |-> {}, sms |-> {}, shown |-> {}, err |-> FALSE,
   pendLast |-> NEVER]    \* TOTP last-code carried by the in-memory user (not yet saved)

Fresh(h, k)  == h.iss[k] + 1
Bump(h, k)   == [h EXCEPT !.iss[k] = @ + 1]

\* first response wins (a second WriteHeader changes nothing on the wire)
Respond(h, class, loc) ==
  IF h.class # "none" THEN h ELSE [h EXCEPT !.class = class, !.loc = loc]
Redirect(h, loc) == Respond(h, "redirect", loc)
Page(h, name)    == Respond(h, "page", name)
Fail(h)          == [h EXCEPT !.err = TRUE]

PutS(h, k, v) == [h EXCEPT !.ps[k] = v]
DelS(h, k)    == [h EXCEPT !.ps[k] = EmptySess[k]]
DelAllS(h, wl) == [h EXCEPT !.ps = [k \in SessKeys |-> IF k \in wl THEN h.ps[k] ELSE EmptySess[k]]]

CurrentUserID(h) == IF h.cu # NONE THEN h.cu ELSE h.rs.uid

\* outcome of running handlers in sequence
HR(h, handled) == [h |-> h, handled |-> handled]

-----------------------------------------------------------------------------
(* lock module *)

\* lock.updateLockedState for the user u (pid) held in the request context
LockUpdate(h, c, u, correct) ==
  LET r   == h.db[u]
      inW == h.now - r.last <= c.lockWindow
      n   == IF correct THEN r.att ELSE IF inW THEN r.att + 1 ELSE 1
      lu  == IF ~correct /\ n >= c.lockAfter THEN h.now + c.lockDuration ELSE r.lockedUntil
      h1  == [h EXCEPT !.db[u].att = n, !.db[u].last = h.now, !.db[u].lockedUntil = lu]
  IN  IF Locked(h1.db[u], h.now) THEN HR(Redirect(h1, "lockNotOK"), TRUE) ELSE HR(h1, FALSE)

LockSuccess(h, u) == [h EXCEPT !.db[u].att = 0, !.db[u].last = h.now]

(* confirm module *)
ConfirmPrevent(h, u) ==
  IF h.db[u].conf THEN HR(h, FALSE) ELSE HR(Redirect(h, "confirmNotOK"), TRUE)

\* confirm.StartConfirmation: new token, unconfirmed, saved, mailed
StartConfirmation(h, u) ==
  LET t == Fresh(h, "ct") IN
  [Bump(h, "ct") EXCEPT !.db[u].conf = FALSE, !.db[u].cTok = t,
                        !.mails = @ \cup {[to |-> {u}, kind |-> "confirm", tok |-> t]}]

(* remember module *)
RememberAdd(h, u) ==
  LET t == Fresh(h, "rm") IN
  [Bump(h, "rm") EXCEPT !.rm = @ \cup {[o |-> u, id |-> t]}, !.pc = t]

\* remember.Authenticate, run by the middleware when nobody is logged in
RememberAuth(h) ==
  LET c == h.rc IN
  IF c = 0 THEN h
  ELSE IF c < 0 \/ ~\E t \in h.rm : t.id = c THEN [h EXCEPT !.pc = 0]
  ELSE LET t == CHOOSE t \in h.rm : t.id = c
           n == Fresh(h, "rm")
       IN  \* the rest of this request already sees the half-authenticated session
           [Bump(h, "rm") EXCEPT !.rm = (@ \ {t}) \cup {[o |-> t.o, id |-> n]},
                                 !.cu = t.o, !.ps.uid = t.o, !.ps.half = TRUE, !.pc = n,
                                 !.rs.uid = t.o, !.rs.half = TRUE]

(* expire module *)
Expired(s, c, now) == s.lastAct # NEVER /\ now - s.lastAct > c.expireAfter

ExpireMW(h, c) ==
  IF h.rs.uid = NONE THEN h
  ELSE IF Expired(h.rs, c, h.now)
       THEN LET h1 == DelS(DelS(DelAllS(h, WL(c)), "uid"), "lastAct")
            IN  [h1 EXCEPT !.rs = [k \in SessKeys |-> IF k \in WL(c) THEN h.rs[k] ELSE EmptySess[k]]]
       ELSE PutS(h, "lastAct", h.now)

-----------------------------------------------------------------------------
(* Event dispatch: handler lists follow load order *)

RECURSIVE FireBeforeAuth(_, _, _, _, _)
FireBeforeAuth(hs, h, c, u, handled) ==
  IF hs = <<>> THEN HR(h, handled)
  ELSE LET r == IF Head(hs) = "lock" THEN LockUpdate(h, c, u, TRUE) ELSE ConfirmPrevent(h, u)
       IN  FireBeforeAuth(Tail(hs), r.h, c, u, handled \/ r.handled)

BeforeAuth(h, c, u) == FireBeforeAuth(Sub(c, {"lock", "confirm"}), h, c, u, FALSE)

\* Before(EventAuthHijack): totp, sms in load order; each honours "handled"
TotpHijack(h, u) ==
  IF h.db[u].totp = 0 THEN HR(h, FALSE)
  ELSE HR(Redirect(PutS(h, "totpPend", u), "totpValidate"), TRUE)

\* sms2fa.SendCodeToUser; rate limit = no tick since the last send in this session
SmsSend(h, phone) ==
  IF h.rs.smsLast # NEVER /\ h.now - h.rs.smsLast < 1
  THEN [h |-> h, limited |-> TRUE]
  ELSE LET t  == Fresh(h, "sc")
           h1 == PutS(PutS(Bump(h, "sc"), "smsLast", h.now), "smsCode", t)
       IN  [h |-> [h1 EXCEPT !.sms = @ \cup {[phone |-> phone, code |-> t]},
                             !.scPhone = @ \cup {<<t, phone>>}], limited |-> FALSE]

SmsHijack(h, u) ==
  IF h.db[u].sms = 0 THEN HR(h, FALSE)
  ELSE LET h1 == PutS(h, "smsPend", u)
           s  == SmsSend(h1, h.db[u].sms)
       IN  HR(Redirect(s.h, "smsValidate"), TRUE)

RECURSIVE FireHijack(_, _, _, _)
FireHijack(hs, h, u, handled) ==
  IF hs = <<>> THEN HR(h, handled)
  ELSE LET r == IF handled THEN HR(h, FALSE)
                ELSE IF Head(hs) = "totp" THEN TotpHijack(h, u) ELSE SmsHijack(h, u)
       IN  FireHijack(Tail(hs), r.h, u, handled \/ r.handled)

Hijack(h, c, u) == FireHijack(Sub(c, {"totp", "sms"}), h, u, FALSE)

\* After(EventAuth): remember (when asked), lock reset, expire stamp
AfterAuth(h, c, u, wantRm) ==
  LET h1 == IF Has(c, "remember") /\ wantRm THEN RememberAdd(h, u) ELSE h
      h2 == IF Has(c, "lock") THEN LockSuccess(h1, u) ELSE h1
      h3 == IF Has(c, "expire") THEN PutS(h2, "lastAct", h.now) ELSE h2
  IN  h3

\* After(EventAuthFail): lock counts the failure
AfterAuthFail(h, c, u) ==
  IF Has(c, "lock") THEN LockUpdate(h, c, u, FALSE) ELSE HR(h, FALSE)

\* the shared tail of every interactive login
\* (Before(Auth) -> Before(Hijack) -> session -> After(Auth) -> redirect)
LoginTail(h, c, u, wantRm, delHalf, okLoc) ==
  LET a == BeforeAuth(h, c, u) IN
  IF a.handled THEN a.h
  ELSE LET j == Hijack(a.h, c, u) IN
       IF j.handled THEN j.h
       ELSE LET h1 == PutS(j.h, "uid", u)
                h2 == IF delHalf THEN DelS(h1, "half") ELSE h1
                h3 == AfterAuth(h2, c, u, wantRm)
            IN  Redirect(h3, okLoc)

-----------------------------------------------------------------------------
(* Request handlers.  e is the event record. *)

RouteMissing(h) == Respond(h, "notfound", NONE)

LoginPost(h, c, e) ==
  IF ~Has(c, "auth") THEN RouteMissing(h)
  ELSE IF e.pid \notin Pids \/ ~h.db[e.pid].ex THEN Page(h, "login")
  ELSE LET u == e.pid IN
       IF e.pw <= 0 \/ e.pw # h.db[u].pw
       THEN LET f == AfterAuthFail(h, c, u) IN
            IF f.handled THEN f.h ELSE Page(f.h, "login")
       ELSE LoginTail(h, c, u, e.rm, TRUE, IF e.redir # NONE THEN "redir" ELSE "loginOK")

Logout(h, c, e) ==
  IF ~Has(c, "logout") \/ e.method # c.logoutMethod THEN RouteMissing(h)
  ELSE LET h1 == DelAllS(h, WL(c))
           h2 == DelS(DelS(DelS(h1, "uid"), "half"), "lastAct")
           h3 == [h2 EXCEPT !.pc = 0]
       IN  Redirect(h3, "logoutOK")

RegisterPost(h, c, e) ==
  IF ~Has(c, "register") THEN RouteMissing(h)
  ELSE IF ~e.valid THEN Page(h, "register")
  ELSE LET u == e.pid IN
       IF h.db[u].ex THEN Page(h, "register")
       ELSE LET h1 == [h EXCEPT !.db[u] = [NoUser EXCEPT !.ex = TRUE, !.pw = e.pw]]
            IN  IF Has(c, "confirm")
                THEN Redirect(StartConfirmation(h1, u), "confirmNotOK")
                ELSE Redirect(PutS(h1, "uid", u), "registerOK")

ConfirmGet(h, c, e) ==
  IF ~Has(c, "confirm") THEN RouteMissing(h)
  ELSE IF e.tok <= 0 \/ ~\E u \in Pids : h.db[u].ex /\ h.db[u].cTok = e.tok
       THEN Redirect(h, "confirmNotOK")
       ELSE LET u == CHOOSE u \in Pids : h.db[u].ex /\ h.db[u].cTok = e.tok
            IN  Redirect([h EXCEPT !.db[u].cTok = 0, !.db[u].conf = TRUE], "confirmOK")

RecoverStart(h, c, e) ==
  IF ~Has(c, "recover") THEN RouteMissing(h)
  ELSE IF ~e.valid THEN Page(h, "recoverStart")
  ELSE IF e.pid \notin Pids \/ ~h.db[e.pid].ex THEN Redirect(h, "recoverOK")
  ELSE LET u == e.pid
           t == Fresh(h, "rt")
           h1 == [Bump(h, "rt") EXCEPT !.db[u].rTok = t, !.db[u].rExp = h.now + c.recoverTTL,
                                       !.mails = @ \cup {[to |-> {u} \cup Secondary(u), kind |-> "recover", tok |-> t]}]
       IN  Redirect(h1, "recoverOK")

RecoverEnd(h, c, e) ==
  IF ~Has(c, "recover") THEN RouteMissing(h)
  ELSE IF ~e.valid THEN Page(h, "recoverEnd")
  ELSE IF e.tok <= 0 \/ ~\E u \in Pids : h.db[u].ex /\ h.db[u].rTok = e.tok
       THEN Page(h, "recoverEnd")
  ELSE LET u == CHOOSE u \in Pids : h.db[u].ex /\ h.db[u].rTok = e.tok IN
       IF h.now > h.db[u].rExp THEN Page(h, "recoverEnd")
       ELSE LET h1 == [h EXCEPT !.db[u].pw = e.pw, !.db[u].rTok = 0, !.db[u].rExp = h.now]
                \* After(EventRecoverEnd): remember drops the cookie and every token
                h2 == IF Has(c, "remember")
                      THEN [h1 EXCEPT !.pc = 0, !.rm = {t \in @ : t.o # u}] ELSE h1
            IN  IF c.recoverLogin
                THEN LoginTail(h2, c, u, FALSE, FALSE, "recoverOK")
                ELSE Redirect(h2, "recoverOK")


-----------------------------------------------------------------------------
(* authboss.Middleware2 as mounted in front of the otp / 2FA routes and the  *)
(* probe route                                                               *)

Refuse(h, c) ==
  Respond(h, CASE c.mwFail = "404" -> "refuse404"
               [] c.mwFail = "401" -> "refuse401"
               [] OTHER -> "refuseLogin", NONE)

\* [ok, uid]: the wrapped handler runs iff ok
AuthMW(h, needFull, need2fa) ==
  LET uid == CurrentUserID(h) IN
  IF (needFull /\ h.rs.half) \/ (need2fa /\ h.rs.twofa = NONE) THEN [ok |-> FALSE, uid |-> NONE]
  ELSE IF uid = NONE \/ uid \notin Pids \/ ~h.db[uid].ex THEN [ok |-> FALSE, uid |-> NONE]
  ELSE [ok |-> TRUE, uid |-> uid]

\* After(EventTwoFactorAdded / Removed): an application handler may answer the request itself
TfaChanged(h, c, page) == IF c.appHandles2FA THEN Redirect(h, "appTfaChanged") ELSE Page(h, page)

\* twofactor.EmailVerify.Wrap
EmailWrapBlocks(h, c) == c.emailAuth /\ ~h.rs.tfaAuthed

(* otp module *)

OtpLoginPost(h, c, e) ==
  IF ~Has(c, "otp") THEN RouteMissing(h)
  ELSE IF e.pid \notin Pids \/ ~h.db[e.pid].ex THEN Page(h, "otpLogin")
  ELSE LET u == e.pid IN
       IF e.tok <= 0 \/ e.tok \notin h.db[u].otps
       THEN LET f == AfterAuthFail(h, c, u) IN
            IF f.handled THEN f.h ELSE Page(f.h, "otpLogin")
       ELSE LET h1 == [h EXCEPT !.db[u].otps = @ \ {e.tok}]     \* consumed and saved first
            IN  LoginTail(h1, c, u, e.rm, TRUE, IF e.redir # NONE THEN "redir" ELSE "loginOK")

OtpAdd(h, c, e) ==
  IF ~Has(c, "otp") THEN RouteMissing(h)
  ELSE LET m == AuthMW(h, FALSE, FALSE) IN
       IF ~m.ok THEN Refuse(h, c)
       ELSE IF Cardinality(h.db[m.uid].otps) >= 5 THEN Page(h, "otpAdd")
       ELSE LET t == Fresh(h, "otp") IN
            Page([Bump(h, "otp") EXCEPT !.db[m.uid].otps = @ \cup {t}, !.shown = {<<"otp", t>>}], "otpAdd")

OtpClear(h, c, e) ==
  IF ~Has(c, "otp") THEN RouteMissing(h)
  ELSE LET m == AuthMW(h, FALSE, FALSE) IN
       IF ~m.ok THEN Refuse(h, c)
       ELSE Page([h EXCEPT !.db[m.uid].otps = {}], "otpAdd")

(* oauth2 module *)

OProviders == {"pa", "pb"}
OPid(prov, uid) == "o_" \o prov \o "_" \o uid

OAuthStart(h, c, e) ==
  IF ~Has(c, "oauth2") \/ e.prov \notin OProviders THEN RouteMissing(h)
  ELSE LET t  == Fresh(h, "os")
           h1 == PutS(Bump(h, "os"), "oState", t)
           hasQ == e.rm \/ e.redir # NONE
           h2 == [h1 EXCEPT !.ps.oHas = hasQ, !.ps.oRm = hasQ /\ e.rm,
                            !.ps.oRedir = IF hasQ THEN e.redir ELSE NONE]
       IN  Redirect(h2, "provider")

OAuthCallback(h, c, e) ==
  IF ~Has(c, "oauth2") \/ e.prov \notin OProviders THEN RouteMissing(h)
  ELSE IF h.rs.oState = 0 THEN Fail(h)
  ELSE IF e.tok <= 0 \/ e.tok # h.rs.oState THEN Fail(h)
  ELSE LET h1 == [h EXCEPT !.ps.oState = 0, !.ps.oHas = FALSE, !.ps.oRm = FALSE, !.ps.oRedir = NONE] IN
       IF e.outcome = "error" THEN Redirect(h1, "oauth2NotOK")
       ELSE IF e.outcome = "exchangeFail" THEN Fail(h1)
       ELSE LET u  == OPid(e.prov, e.outcome)
                h2 == IF h1.db[u].ex THEN h1
                      ELSE [h1 EXCEPT !.db[u] = [NoUser EXCEPT !.ex = TRUE, !.conf = TRUE]]
                a  == IF Has(c, "lock") THEN LockUpdate(h2, c, u, TRUE) ELSE HR(h2, FALSE)
            IN  IF a.handled THEN a.h
                ELSE LET h3 == DelS(PutS(a.h, "uid", u), "half")
                         h4 == IF Has(c, "remember") /\ h.rs.oHas /\ h.rs.oRm THEN RememberAdd(h3, u) ELSE h3
                     IN  Redirect(h4, IF h.rs.oHas /\ h.rs.oRedir # NONE THEN "redir" ELSE "oauth2OK")

(* two-factor: shared pieces *)

NewRecoveryCodes(h, u) ==
  LET g == Fresh(h, "rc") IN
  [Bump(h, "rc") EXCEPT !.db[u].rcg = g, !.db[u].rcLeft = 1..10, !.shown = @ \cup {<<"rc", g>>}]

\* when the application answers After(EventTwoFactorAdded) itself, the page that
\* would show the fresh codes is never rendered: they are stored but nobody has them
EnrolRecoveryCodes(h, c, u) ==
  IF c.appHandles2FA THEN [h EXCEPT !.db[u].rcg = -1, !.db[u].rcLeft = {-1}] ELSE NewRecoveryCodes(h, u)

RcMatches(h, u, e) == e.rc >= 1 /\ e.g = h.db[u].rcg /\ e.rc \in h.db[u].rcLeft

\* the user a validate-style handler acts for: the logged-in one, else the pending one
ValidateUser(h, pend) ==
  LET cur == CurrentUserID(h) IN
  IF cur # NONE /\ cur \in Pids /\ h.db[cur].ex THEN cur
  ELSE IF pend # NONE /\ pend \in Pids /\ h.db[pend].ex THEN pend
  ELSE NONE

TotpEnc(e) == IF e.code >= 1 /\ e.tok >= 1 THEN e.tok * 10 + e.code ELSE IF e.code = 0 THEN 0 ELSE -1

\* totp2fa.validate: [h, status] with status in "notEnabled" | "bad" | "ok"
TotpCheck(h, c, u, e) ==
  IF h.db[u].totp = 0 THEN [h |-> h, status |-> "notEnabled"]
  ELSE IF e.rc # 0 THEN
         IF RcMatches(h, u, e)
         THEN [h |-> [h EXCEPT !.db[u].rcLeft = @ \ {e.rc}], status |-> "ok"]   \* saved at once
         ELSE [h |-> h, status |-> "bad"]
  ELSE LET enc == TotpEnc(e)
           rep == c.totpOneTime /\ enc = h.db[u].totpLast
           \* the in-memory user carries the new last code; it reaches storage
           \* with whichever Save follows (lock's, the handler's)
           hm  == IF c.totpOneTime /\ ~rep THEN [h EXCEPT !.pendLast = enc] ELSE h
       IN  IF rep THEN [h |-> h, status |-> "bad"]
           ELSE IF e.code >= 1 /\ e.tok = h.db[u].totp THEN [h |-> hm, status |-> "ok"]
           ELSE [h |-> hm, status |-> "bad"]

SaveLast(h, u) == IF h.pendLast # NEVER THEN [h EXCEPT !.db[u].totpLast = h.pendLast] ELSE h

\* completing the second step of a login
TwoFALogin(h, c, u, kind, e) ==
  LET a == BeforeAuth(h, c, u) IN
  IF a.handled THEN a.h
  ELSE LET h1 == PutS(PutS(a.h, "uid", u), "twofa", kind)
           h2 == DelS(h1, "half")
           h3 == IF kind = "totp" THEN DelS(DelS(h2, "totpPend"), "totpSetup")
                 ELSE DelS(DelS(h2, "smsPend"), "smsCode")
           h4 == AfterAuth(h3, c, u, FALSE)
       IN  Redirect(h4, IF e.redir # NONE THEN "redir" ELSE "loginOK")

(* totp *)

TotpSetup(h, c, e) ==
  IF ~Has(c, "totp") THEN RouteMissing(h)
  ELSE LET m == AuthMW(h, TRUE, FALSE) IN
       IF ~m.ok THEN Refuse(h, c)
       ELSE IF EmailWrapBlocks(h, c) THEN Redirect(h, "totpEmailVerify")
       ELSE IF e.act = "TotpSetupGet" THEN Page(DelS(h, "totpSetup"), "totpSetup")
       ELSE LET t == Fresh(h, "ts") IN Redirect(PutS(Bump(h, "ts"), "totpSetup", t), "totpConfirm")

TotpConfirm(h, c, e) ==
  IF ~Has(c, "totp") THEN RouteMissing(h)
  ELSE LET m == AuthMW(h, TRUE, FALSE) IN
       IF ~m.ok THEN Refuse(h, c)
       ELSE IF EmailWrapBlocks(h, c) THEN Redirect(h, "totpEmailVerify")
       ELSE IF h.rs.totpSetup = 0 THEN Fail(h)
       ELSE IF ~(e.code >= 1 /\ e.tok = h.rs.totpSetup) THEN Page(h, "totpConfirm")
       ELSE LET u  == m.uid
                h1 == EnrolRecoveryCodes(h, c, u)
                h2 == [h1 EXCEPT !.db[u].totp = h.rs.totpSetup,
                                 !.db[u].totpLast = IF c.totpOneTime THEN TotpEnc(e) ELSE @]
            IN  TfaChanged(DelS(DelS(h2, "totpSetup"), "tfaAuthed"), c, "totpConfirmOK")

TotpRemove(h, c, e) ==
  IF ~Has(c, "totp") THEN RouteMissing(h)
  ELSE LET m == AuthMW(h, TRUE, FALSE) IN
       IF ~m.ok THEN Refuse(h, c)
       ELSE LET u == m.uid
                v == TotpCheck(h, c, u, e)
            IN  IF v.status # "ok" THEN Page(v.h, "totpRemove")
                ELSE TfaChanged([SaveLast(DelS(v.h, "twofa"), u) EXCEPT !.db[u].totp = 0], c, "totpRemoveOK")

TotpValidate(h, c, e) ==
  IF ~Has(c, "totp") THEN RouteMissing(h)
  ELSE LET u == ValidateUser(h, h.rs.totpPend) IN
       IF u = NONE THEN Fail(h)
       ELSE LET v == TotpCheck(h, c, u, e) IN
            IF v.status = "notEnabled" THEN Page(v.h, "totpValidate")
            ELSE IF v.status = "bad"
            THEN LET f == AfterAuthFail(v.h, c, u)
                     \* lock saves the very user object validate() mutated
                     hf == IF Has(c, "lock") THEN SaveLast(f.h, u) ELSE f.h
                 IN  IF f.handled THEN hf ELSE Page(hf, "totpValidate")
            ELSE TwoFALogin(SaveLast(v.h, u), c, u, "totp", e)

(* sms *)

SmsSetup(h, c, e) ==
  IF ~Has(c, "sms") THEN RouteMissing(h)
  ELSE LET m == AuthMW(h, TRUE, FALSE) IN
       IF ~m.ok THEN Refuse(h, c)
       ELSE IF EmailWrapBlocks(h, c) THEN Redirect(h, "smsEmailVerify")
       ELSE IF e.act = "SmsSetupGet" THEN Page(DelS(DelS(h, "smsCode"), "smsNum"), "smsSetup")
       ELSE IF e.phone <= 0 THEN Page(h, "smsSetup")
       ELSE LET s == SmsSend(PutS(h, "smsNum", e.phone), e.phone) IN
            IF s.limited THEN Fail(s.h) ELSE Redirect(s.h, "smsConfirm")

\* which: "confirm" | "remove" | "validate"
SmsPost(h, c, e, which) ==
  IF ~Has(c, "sms") THEN RouteMissing(h)
  ELSE LET m == IF which = "validate" THEN [ok |-> TRUE, uid |-> NONE] ELSE AuthMW(h, TRUE, FALSE) IN
       IF ~m.ok THEN Refuse(h, c)
       ELSE IF which = "confirm" /\ EmailWrapBlocks(h, c) THEN Redirect(h, "smsEmailVerify")
       ELSE LET u == ValidateUser(h, h.rs.smsPend)
                page == CASE which = "confirm" -> "smsConfirm" [] which = "remove" -> "smsRemove" [] OTHER -> "smsValidate"
                rcGiven == which # "confirm" /\ e.rc # 0
            IN
            IF u = NONE THEN Fail(h)
            ELSE IF ~rcGiven /\ e.code = 0 THEN
                   \* (re)send a code
                   LET phone == IF which = "confirm" THEN h.rs.smsNum ELSE h.db[u].sms IN
                   IF phone = 0 THEN Fail(h)
                   ELSE Page(SmsSend(h, phone).h, page)
            ELSE IF ~rcGiven /\ h.rs.smsCode = 0 THEN Fail(h)
            ELSE LET target == IF which = "confirm" THEN h.rs.smsNum ELSE h.db[u].sms
                     verified == IF rcGiven THEN RcMatches(h, u, e)
                                 ELSE e.code >= 1 /\ e.code = h.rs.smsCode
                                      /\ <<e.code, target>> \in h.scPhone   \* sent to the factor being proven
                     h1 == IF rcGiven /\ verified THEN [h EXCEPT !.db[u].rcLeft = @ \ {e.rc}] ELSE h
                 IN
                 IF ~verified
                 THEN LET f == AfterAuthFail(h1, c, u) IN IF f.handled THEN f.h ELSE Page(f.h, page)
                 ELSE CASE which = "confirm" ->
                             IF h.rs.smsNum = 0 THEN Fail(h1)
                             ELSE LET h2 == [EnrolRecoveryCodes(h1, c, u) EXCEPT !.db[u].sms = h.rs.smsNum]
                                  IN  TfaChanged(DelS(DelS(DelS(h2, "tfaAuthed"), "smsCode"), "smsNum"), c, "smsConfirmOK")
                        [] which = "remove" ->
                             TfaChanged(DelS([h1 EXCEPT !.db[u].sms = 0], "twofa"), c, "smsRemoveOK")
                        [] OTHER -> TwoFALogin(h1, c, u, "sms", e)

(* recovery codes, e-mail verification *)

RecoveryRegen(h, c, e) ==
  IF ~Has(c, "recovery") THEN RouteMissing(h)
  ELSE LET m == AuthMW(h, TRUE, FALSE) IN
       IF ~m.ok THEN Refuse(h, c) ELSE Page(NewRecoveryCodes(h, m.uid), "recovery2fa")

EmailVerifyStart(h, c, e) ==
  IF ~c.emailAuth \/ ~Has(c, e.kind) \/ e.kind \notin {"totp", "sms"} THEN RouteMissing(h)
  ELSE LET m == AuthMW(h, TRUE, FALSE) IN
       IF ~m.ok THEN Refuse(h, c)
       ELSE LET t == Fresh(h, "tt")
                h1 == PutS(Bump(h, "tt"), "tfaTok", t)
            IN  Redirect([h1 EXCEPT !.mails = @ \cup {[to |-> {m.uid}, kind |-> "tfaverify", tok |-> t]}], "tfaEmailNotOK")

EmailVerifyEnd(h, c, e) ==
  IF ~c.emailAuth \/ ~Has(c, e.kind) \/ e.kind \notin {"totp", "sms"} THEN RouteMissing(h)
  ELSE LET m == AuthMW(h, TRUE, FALSE) IN
       IF ~m.ok THEN Refuse(h, c)
       ELSE IF h.rs.tfaTok = 0 \/ e.tok <= 0 \/ e.tok # h.rs.tfaTok THEN Redirect(h, "tfaEmailNotOK")
       ELSE Redirect(PutS(DelS(h, "tfaTok"), "tfaAuthed", TRUE), IF e.kind = "totp" THEN "totpSetup" ELSE "smsSetup")

\* application route behind authboss.Middleware2 -> lock.Middleware -> confirm.Middleware
\* the GET pages (forms and status pages). e.k names the route; they change nothing by themselves
\* (the global middlewares in front still act), but each sits behind the same guards as its POST twin
GetPage(h, c, e) ==
  LET k == e.k
      open(mod, page) == IF Has(c, mod) THEN Page(h, page) ELSE RouteMissing(h)
      guarded(mod, wrapKind, page, needSetup) ==
        IF ~Has(c, mod) THEN RouteMissing(h)
        ELSE LET m == AuthMW(h, TRUE, FALSE) IN
             IF ~m.ok THEN Refuse(h, c)
             ELSE IF wrapKind # NONE /\ EmailWrapBlocks(h, c)
                  THEN Redirect(h, IF wrapKind = "totp" THEN "totpEmailVerify" ELSE "smsEmailVerify")
             ELSE IF needSetup /\ h.rs.totpSetup = 0 THEN Fail(h)
             ELSE Page(h, page)
  IN
  CASE k = "login" -> open("auth", "login")
    [] k = "register" -> open("register", "register")
    [] k = "recover" -> open("recover", "recoverStart")
    [] k = "recoverEnd" -> IF ~Has(c, "recover") THEN RouteMissing(h) ELSE IF c.json THEN Fail(h) ELSE Page(h, "recoverEnd")
    [] k = "otpLogin" -> open("otp", "otpLogin")
    [] k \in {"otpAdd", "otpClear"} ->
         IF ~Has(c, "otp") THEN RouteMissing(h)
         ELSE IF ~AuthMW(h, FALSE, FALSE).ok THEN Refuse(h, c) ELSE Page(h, k)
    [] k = "totpConfirm" -> guarded("totp", "totp", "totpConfirm", TRUE)
    [] k = "totpRemove" -> guarded("totp", NONE, "totpRemove", FALSE)
    [] k = "totpValidate" -> open("totp", "totpValidate")
    [] k = "smsConfirm" -> guarded("sms", "sms", "smsConfirm", FALSE)
    [] k = "smsRemove" -> guarded("sms", NONE, "smsRemove", FALSE)
    [] k = "smsValidate" -> open("sms", "smsValidate")
    [] k = "recoveryRegen" -> guarded("recovery", NONE, "recovery2fa", FALSE)
    [] k \in {"totpEmailVerify", "smsEmailVerify"} ->
         LET kind == IF k = "totpEmailVerify" THEN "totp" ELSE "sms" IN
         IF ~c.emailAuth \/ ~Has(c, kind) THEN RouteMissing(h) ELSE guarded(kind, NONE, "tfaVerify", FALSE)
    [] OTHER -> RouteMissing(h)

GetKeys == {"login", "register", "recover", "recoverEnd", "otpLogin", "otpAdd", "otpClear", "totpConfirm", "totpRemove",
            "totpValidate", "smsConfirm", "smsRemove", "smsValidate", "recoveryRegen", "totpEmailVerify", "smsEmailVerify"}

\* lock.Middleware -> confirm.Middleware used on their own: they load the session user themselves
\* and, as documented, panic when there is none to load
BareProbe(h, c, e) ==
  LET uid == CurrentUserID(h)
      known == uid # NONE /\ uid \in Pids /\ h.db[uid].ex
  IN  IF ~Has(c, "lock") /\ ~Has(c, "confirm")
      THEN [Respond(h, "ok", NONE) EXCEPT !.ran = TRUE, !.seenUser = IF known THEN uid ELSE NONE,
              !.seenKeys = {k \in SessKeys \ {"oRm", "oRedir"} : h.rs[k] # EmptySess[k]}]
      ELSE IF ~known THEN Respond(h, "panic", NONE)
      ELSE IF Has(c, "lock") /\ Locked(h.db[uid], h.now) THEN Redirect(h, "lockNotOK")
      ELSE IF Has(c, "confirm") /\ ~h.db[uid].conf THEN Redirect(h, "confirmNotOK")
      ELSE [Respond(h, "ok", NONE) EXCEPT !.ran = TRUE, !.seenUser = uid,
              !.seenKeys = {k \in SessKeys \ {"oRm", "oRedir"} : h.rs[k] # EmptySess[k]}]

Probe(h, c, e) ==
  IF e.k = "bare" THEN BareProbe(h, c, e) ELSE
  LET m == AuthMW(h, c.mwReqs \in {1, 3}, c.mwReqs \in {2, 3}) IN
  IF ~m.ok THEN Refuse(h, c)
  ELSE IF Has(c, "lock") /\ Locked(h.db[m.uid], h.now) THEN Redirect(h, "lockNotOK")
  ELSE IF Has(c, "confirm") /\ ~h.db[m.uid].conf THEN Redirect(h, "confirmNotOK")
  ELSE [Respond(h, "ok", NONE) EXCEPT !.ran = TRUE, !.seenUser = m.uid,
          !.seenKeys = {k \in SessKeys \ {"oRm", "oRedir"} : h.rs[k] # EmptySess[k]}]

Dispatch(h, c, e) ==
  CASE e.act = "LoginPost"    -> LoginPost(h, c, e)
    [] e.act = "Logout"       -> Logout(h, c, e)
    [] e.act = "RegisterPost" -> RegisterPost(h, c, e)
    [] e.act = "ConfirmGet"   -> ConfirmGet(h, c, e)
    [] e.act = "RecoverStart" -> RecoverStart(h, c, e)
    [] e.act = "RecoverEnd"   -> RecoverEnd(h, c, e)
    [] e.act = "Probe"        -> Probe(h, c, e)
    [] e.act = "OtpLoginPost" -> OtpLoginPost(h, c, e)
    [] e.act = "OtpAdd"       -> OtpAdd(h, c, e)
    [] e.act = "OtpClear"     -> OtpClear(h, c, e)
    [] e.act = "OAuthStart"   -> OAuthStart(h, c, e)
    [] e.act = "OAuthCallback" -> OAuthCallback(h, c, e)
    [] e.act \in {"TotpSetup", "TotpSetupGet"} -> TotpSetup(h, c, e)
    [] e.act = "TotpConfirm"  -> TotpConfirm(h, c, e)
    [] e.act = "TotpRemove"   -> TotpRemove(h, c, e)
    [] e.act = "TotpValidate" -> TotpValidate(h, c, e)
    [] e.act \in {"SmsSetup", "SmsSetupGet"} -> SmsSetup(h, c, e)
    [] e.act = "SmsConfirm"   -> SmsPost(h, c, e, "confirm")
    [] e.act = "SmsRemove"    -> SmsPost(h, c, e, "remove")
    [] e.act = "SmsValidate"  -> SmsPost(h, c, e, "validate")
    [] e.act = "RecoveryRegen" -> RecoveryRegen(h, c, e)
    [] e.act = "EmailVerifyStart" -> EmailVerifyStart(h, c, e)
    [] e.act = "EmailVerifyEnd" -> EmailVerifyEnd(h, c, e)
    [] e.act = "Get"          -> GetPage(h, c, e)

RequestActs == {"LoginPost", "Logout", "RegisterPost", "ConfirmGet", "RecoverStart",
                "RecoverEnd", "Probe", "OtpLoginPost", "OtpAdd", "OtpClear", "OAuthStart",
                "OAuthCallback", "TotpSetup", "TotpSetupGet", "TotpConfirm", "TotpRemove",
                "TotpValidate", "SmsSetup", "SmsSetupGet", "SmsConfirm", "SmsRemove",
                "SmsValidate", "RecoveryRegen", "EmailVerifyStart", "EmailVerifyEnd", "Get"}

\* global middleware chain in front of every route
Prelude(S, c, b) ==
  LET h0 == Ctx0(S, b)
      h1 == IF Has(c, "remember") /\ h0.rs.uid = NONE THEN RememberAuth(h0) ELSE h0
      h2 == IF Has(c, "expire") THEN ExpireMW(h1, c) ELSE h1
  IN  h2

Request(S, c, e) ==
  LET h  == Dispatch(Prelude(S, c, e.b), c, e)
      \* a handler error: the shipped error handler only logs (nothing is
      \* flushed, implicit empty 200); the alternative writes a 500.
      hf == IF h.err /\ h.class = "none"
            THEN [h EXCEPT !.class = IF c.errWrites THEN "error500" ELSE "errorSilent"]
            ELSE h
      flush == hf.class \notin {"errorSilent", "panic"}
  IN  [st |-> [S EXCEPT !.db = hf.db, !.rm = hf.rm, !.iss = hf.iss, !.scPhone = hf.scPhone,
                        !.sess[e.b] = IF flush THEN hf.ps ELSE @,
                        !.cookie[e.b] = IF flush THEN hf.pc ELSE @],
       resp |-> [class |-> hf.class, loc |-> hf.loc, ran |-> hf.ran,
                 seenUser |-> hf.seenUser, seenKeys |-> hf.seenKeys,
                 mails |-> hf.mails, sms |-> hf.sms, shown |-> hf.shown, leaks |-> {}, calls |-> <<>>]]

-----------------------------------------------------------------------------
(* Environment events *)

Env(S, c, e) ==
  LET S1 ==
    IF e.act \in {"AdminLock", "AdminUnlock", "RestartConfirm", "UpdatePassword"} /\ ~S.db[e.pid].ex THEN S ELSE
    CASE e.act = "Tick" -> [S EXCEPT !.now = @ + e.d]
      [] e.act = "AdminLock" -> [S EXCEPT !.db[e.pid].lockedUntil = S.now + c.lockDuration]
      [] e.act = "AdminUnlock" ->
           [S EXCEPT !.db[e.pid].att = 0, !.db[e.pid].last = NEVER, !.db[e.pid].lockedUntil = NEVER]
      [] e.act = "RestartConfirm" ->
           LET t == S.iss["ct"] + 1 IN
           [S EXCEPT !.db[e.pid].conf = FALSE, !.db[e.pid].cTok = t, !.iss["ct"] = t]
      [] e.act = "UpdatePassword" ->
           [S EXCEPT !.db[e.pid].pw = e.pw, !.rm = {t \in @ : t.o # e.pid}]
      [] e.act = "StealCookie" -> [S EXCEPT !.cookie[e.k] = S.cookie[e.b]]
      [] e.act = "DropSession" -> [S EXCEPT !.sess[e.b] = EmptySess]
      [] e.act = "JunkCookie" -> [S EXCEPT !.cookie[e.b] = -1]
      [] e.act = "AppKey" -> [S EXCEPT !.sess[e.b][e.k] = TRUE]
  IN [st |-> S1,
      resp |-> [R0 EXCEPT !.mails = IF e.act = "RestartConfirm" /\ S.db[e.pid].ex
                                    THEN {[to |-> {e.pid}, kind |-> "confirm", tok |-> S1.iss["ct"]]}
                                    ELSE {}]]

EnvActs == {"Tick", "AdminLock", "AdminUnlock", "RestartConfirm", "UpdatePassword",
            "StealCookie", "DropSession", "JunkCookie", "AppKey"}

\* the secrets that are live (usable) in a state; whatever leaves this set is
\* dead for good (consumed, superseded, cleared, revoked) and recorded in `spent`
Live(S) ==
  UNION { {<<"otp", t>> : t \in S.db[u].otps} \cup {<<"rc", S.db[u].rcg * 100 + i>> : i \in S.db[u].rcLeft}
          \cup (IF S.db[u].cTok >= 1 THEN {<<"ct", S.db[u].cTok>>} ELSE {})
          \cup (IF S.db[u].rTok >= 1 THEN {<<"rt", S.db[u].rTok>>} ELSE {}) : u \in Pids }
  \cup {<<"rm", t.id>> : t \in S.rm}
  \cup UNION { (IF S.sess[b].smsCode >= 1 THEN {<<"sc", S.sess[b].smsCode>>} ELSE {})
               \cup (IF S.sess[b].oState >= 1 THEN {<<"os", S.sess[b].oState>>} ELSE {})
               \cup (IF S.sess[b].tfaTok >= 1 THEN {<<"tt", S.sess[b].tfaTok>>} ELSE {}) : b \in Browsers }

Apply(S, c, e) ==
  LET r == IF e.act \in EnvActs THEN Env(S, c, e) ELSE Request(S, c, e)
  IN  [r EXCEPT !.st.spent = S.spent \cup (Live(S) \ Live(r.st))]

=============================================================================
