------------------------------- MODULE Rules -------------------------------
(***************************************************************************)
(* C19 (policy clause): defaults.Rules over character-class strings.       *)
(* A string is a sequence of classes U (upper-case letter), L (lower-case  *)
(* letter), D (digit), Y (symbol), W (whitespace), M (two-byte lower-case  *)
(* letter); lengths are counted in bytes as the implementation does.       *)
(* Accepts(r, s) holds exactly when s meets every configured bound of the  *)
(* rule vector r.  TLC enumerates every string up to MaxLen for every rule *)
(* vector in the file VERIF_RULES and checks PolicyExact (Accepts is the   *)
(* conjunction of the per-bound verdicts and nothing else); the harness    *)
(* evaluates the real defaults.Rules on concretisations of every row.      *)
(***************************************************************************)
EXTENDS Integers, Sequences, TLC, Json, IOUtils

CONSTANTS MaxLen
VARIABLES row, js

Cls == {"U", "L", "D", "Y", "W", "M"}
Strings == UNION { [1..n -> Cls] : n \in 0..MaxLen }
Vectors == ndJsonDeserialize(IOEnv.VERIF_RULES)   \* sequence of rule vectors

Count(s, c) == Len(SelectSeq(s, LAMBDA x : x \in c))
Bytes(s) == Len(s) + Count(s, {"M"})

Verdicts(r, s) ==
  [minLen |-> r.minLength = 0 \/ Bytes(s) >= r.minLength,
   maxLen |-> r.maxLength = 0 \/ Bytes(s) <= r.maxLength,
   letters |-> Count(s, {"U", "L", "M"}) >= r.minLetters,
   upper |-> Count(s, {"U"}) >= r.minUpper,
   lower |-> Count(s, {"L", "M"}) >= r.minLower,
   numeric |-> Count(s, {"D"}) >= r.minNumeric,
   symbols |-> Count(s, {"Y"}) >= r.minSymbols,
   space |-> r.allowWhitespace \/ Count(s, {"W"}) = 0]

Accepts(r, s) == LET v == Verdicts(r, s) IN \A k \in DOMAIN v : v[k]

Init == \E i \in 1..Len(Vectors), s \in Strings :
          /\ row = [r |-> Vectors[i], s |-> s, accepts |-> Accepts(Vectors[i], s)]
          /\ js = ToJson([r |-> Vectors[i], s |-> s, accepts |-> Accepts(Vectors[i], s)])
Next == UNCHANGED <<row, js>>
Spec == Init /\ [][Next]_<<row, js>>

\* accepted exactly when every configured minimum (and the maximum) is met
PolicyExact ==
  LET r == row.r  s == row.s IN
  row.accepts <=>
     /\ (r.minLength > 0 => Bytes(s) >= r.minLength) /\ (r.maxLength > 0 => Bytes(s) <= r.maxLength)
     /\ Count(s, {"U", "L", "M"}) >= r.minLetters /\ Count(s, {"U"}) >= r.minUpper
     /\ Count(s, {"L", "M"}) >= r.minLower /\ Count(s, {"D"}) >= r.minNumeric /\ Count(s, {"Y"}) >= r.minSymbols
     /\ (~r.allowWhitespace => Count(s, {"W"}) = 0)
=============================================================================
