------------------------------- MODULE Codecs -------------------------------
(***************************************************************************)
(* Codec clauses of C07 and C14 over a separator alphabet.                  *)
(*  - OAuth2 PID: MakePID(provider, uid) = "oauth2;;provider;;uid";        *)
(*    ParsePID must invert it for every uid (any characters, including the *)
(*    separator) and every separator-free provider, and MakePID must be    *)
(*    injective.                                                           *)
(*  - remember token: pid ";" nonce with a fixed-size nonce; ParseTok must  *)
(*    return the pid for every pid and nonce (both may contain ';').       *)
(* TLC enumerates every (provider, uid) / (pid, nonce) within the bounds    *)
(* and checks RoundTrip / Injective; the harness runs the real functions    *)
(* (ParseOAuth2PID / MakeOAuth2PID directly, the cookie through a real      *)
(* login + remember middleware round trip) on every enumerated value.       *)
(***************************************************************************)
EXTENDS Integers, Sequences, TLC, Json

CONSTANTS MaxUid, NonceLen,
          UidAlphabet    \* characters of provider uids: the separator plus characters an escaping scheme would use
VARIABLES row, js

Seqs(A, lo, hi) == UNION { [1..n -> A] : n \in lo..hi }

Prov == Seqs({"a", "b"}, 1, 2)
Uids == Seqs(UidAlphabet, 0, MaxUid)
Pidz == Seqs({"a", ";", ","}, 1, 3)
Nonces == Seqs({"a", ";"}, NonceLen, NonceLen)

SEP == <<";", ";">>
MakePID(p, u) == <<"o">> \o SEP \o p \o SEP \o u

\* index of the first occurrence of ";;" at or after i, 0 if none
RECURSIVE Find(_, _)
Find(s, i) == IF i + 1 > Len(s) THEN 0
              ELSE IF s[i] = ";" /\ s[i + 1] = ";" THEN i ELSE Find(s, i + 1)

\* split into exactly three parts at the first two separators
ParsePID(s) ==
  LET i == Find(s, 1) IN
  IF i = 0 THEN [ok |-> FALSE, p |-> <<>>, u |-> <<>>]
  ELSE LET j == Find(s, i + 2) IN
       IF j = 0 \/ SubSeq(s, 1, i - 1) # <<"o">> THEN [ok |-> FALSE, p |-> <<>>, u |-> <<>>]
       ELSE [ok |-> TRUE, p |-> SubSeq(s, i + 2, j - 1), u |-> SubSeq(s, j + 2, Len(s))]

MakeTok(pid, n) == pid \o <<";">> \o n
ParseTok(t) == LET i == Len(t) - NonceLen IN
               IF i < 1 \/ t[i] # ";" THEN [ok |-> FALSE, pid |-> <<>>] ELSE [ok |-> TRUE, pid |-> SubSeq(t, 1, i - 1)]

Init ==
  \/ \E p \in Prov, u \in Uids :
        /\ row = [kind |-> "pid", p |-> p, u |-> u, n |-> <<>>]
        /\ js = ToJson([kind |-> "pid", p |-> p, u |-> u, n |-> <<>>])
  \/ \E pid \in Pidz, n \in Nonces :
        /\ row = [kind |-> "tok", p |-> pid, u |-> <<>>, n |-> n]
        /\ js = ToJson([kind |-> "tok", p |-> pid, u |-> <<>>, n |-> n])
Next == UNCHANGED <<row, js>>
Spec == Init /\ [][Next]_<<row, js>>

RoundTrip ==
  /\ row.kind = "pid" => LET r == ParsePID(MakePID(row.p, row.u)) IN r.ok /\ r.p = row.p /\ r.u = row.u
  /\ row.kind = "tok" => LET r == ParseTok(MakeTok(row.p, row.n)) IN r.ok /\ r.pid = row.p
Injective ==
  row.kind = "pid" => \A p2 \in Prov, u2 \in Uids : MakePID(p2, u2) = MakePID(row.p, row.u) => p2 = row.p /\ u2 = row.u
=============================================================================
